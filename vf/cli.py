"""./check <ID> [--tier quick|thorough] [--replay FILE]"""
import argparse
import importlib
import os
import sys

from . import core


def main():
    ap = argparse.ArgumentParser()
    ap.add_argument("prop")
    ap.add_argument("--tier", default=os.environ.get("VERIF_TIER", "quick"), choices=["quick", "thorough"])
    ap.add_argument("--replay")
    ap.add_argument("--jobs", type=int, default=0)
    ap.add_argument("--only", default=None, help="substring filter on instance names (debugging)")
    a = ap.parse_args()
    if a.replay:
        sys.exit(core.do_replay(a.replay))
    if a.tier == "thorough":
        os.environ.setdefault("VERIF_XCHECK_EVERY", "50")  # two solvers: every 50th unsat re-posed to cvc5
    prop = a.prop.upper()
    mod = importlib.import_module("vf.props." + prop.lower())
    instances, meta = mod.instances(a.tier)
    if a.only:
        instances = [i for i in instances if a.only in i.name]
    seed = int(os.environ.get("VERIF_SEED", "0") or 0)
    code = core.run_property(prop, a.tier, instances, meta, seed=seed, jobs=a.jobs or None)
    sys.exit(code)


if __name__ == "__main__":
    main()
