"""Environment stubs for the E harnesses: in-memory JSON / TOML files (symbolic mode only).
Contract: json.load(json.dump(x)) == x for trees of dict[str] / list / str / bool / number."""
import copy
import contextlib

from .symx import SymReal, SymBool

FILES = {}


def _clone(x):
    if isinstance(x, dict):
        return {k: _clone(v) for k, v in x.items()}
    if isinstance(x, (list, tuple)):
        return [_clone(v) for v in x]  # JSON has no tuples
    return x  # str / bool / number / proxy are immutable


class _Handle:
    def __init__(self, name, mode):
        self.name, self.mode = name, mode

    def __enter__(self):
        return self

    def __exit__(self, *a):
        return False


class _Json:
    @staticmethod
    def dump(obj, f, indent=None):
        FILES[f.name] = _clone(obj)

    @staticmethod
    def load(f):
        return _clone(FILES[f.name])


class _Toml:
    @staticmethod
    def load(f):
        return _clone(FILES[f.name])


@contextlib.contextmanager
def memory_files(ctx):
    """In symbolic mode rebind json/toml/open in the sysloss modules to the in-memory versions."""
    if not ctx.symbolic:
        yield
        return
    import sysloss.system as S
    import sysloss.components as C

    saved = (S.json, getattr(S, "open", None), C.toml, getattr(C, "open", None))
    S.json, S.open = _Json, lambda name, mode="r": _Handle(name, mode)
    C.toml, C.open = _Toml, lambda name, mode="r": _Handle(name, mode)
    try:
        yield
    finally:
        S.json, C.toml = saved[0], saved[2]
        for mod, old in ((S, saved[1]), (C, saved[3])):
            if old is None:
                try:
                    del mod.open
                except AttributeError:
                    pass
            else:
                mod.open = old
