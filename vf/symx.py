"""symx -- proxy based symbolic execution of the *real* sysloss functions over z3 reals.

* ``SymReal`` wraps a z3 Real term and implements the Python number protocol.
* Comparisons give ``SymBool``; ``bool(SymBool)`` asks the active ``Explorer`` for a decision
  (re-execution DFS, one incremental solver aligned with the decision stack).
* Optional UF abstraction of non-linear ``*`` and ``/`` (sound for "unsat"), with sign / zero lemma
  instances, and exact refinement (``substitute_funs``) of every UF-``sat`` answer.

Nothing in here knows about sysloss.
"""
import time
from fractions import Fraction

import z3


class Abort(BaseException):
    """Path pruned (infeasible or assumed away).  BaseException so that repo code that catches
    ``Exception`` cannot swallow it."""


class Misaligned(BaseException):
    """A re-execution of a path did not repeat the recorded decisions (non-deterministic harness or code under test)."""


class BoundExceeded(Exception):
    """Path cap hit -- the exploration is inconclusive."""


class NonFinite(ZeroDivisionError):
    """Division by a value that can be zero on this path (numpy would give inf/nan)."""


R = z3.RealSort()
_MUL = z3.Function("uf_mul", R, R, R)
_DIV = z3.Function("uf_div", R, R, R)

TIMEOUT_MS = 60_000
import os as _os
XCHECK_EVERY = int(_os.environ.get("VERIF_XCHECK_EVERY", "0") or 0)
CUR = None  # the active Explorer (symbolic mode) or None (concrete mode)


def active():
    return CUR


def is_num(t):
    return z3.is_rational_value(t) or z3.is_int_value(t) or z3.is_algebraic_value(t)


def _uf():
    return CUR is not None and CUR.uf


def mk_mul(a, b):
    if is_num(a) or is_num(b) or not _uf():
        return a * b
    if a.get_id() > b.get_id():
        a, b = b, a
    t = _MUL(a, b)
    CUR.note_mul(t, a, b)
    return t


def mk_div(a, b):
    if is_num(b) or not _uf():
        return a / b
    t = _DIV(a, b)
    CUR.note_div(t, a, b)
    return t


def exact(term):
    """Replace the uninterpreted mul/div by real arithmetic."""
    v0, v1 = z3.Var(0, R), z3.Var(1, R)
    return z3.substitute_funs(term, (_MUL, v0 * v1), (_DIV, v0 / v1))


def _vars(t, _cache={}):
    """Free constants of a term (ids)."""
    out = set()
    seen = set()
    stack = [t]
    while stack:
        e = stack.pop()
        i = e.get_id()
        if i in seen:
            continue
        seen.add(i)
        if z3.is_const(e) and e.decl().kind() == z3.Z3_OP_UNINTERPRETED:
            out.add(i)
        else:
            stack.extend(e.children())
    return out


def cvc5_verdict(assertions, tlimit_ms=20000):
    """'sat' | 'unsat' | 'unknown' from the cvc5 wheel on the SMT-LIB export of the assertions (second solver)."""
    try:
        import cvc5

        s = z3.Solver()
        s.add(*assertions)
        smt = "(set-logic ALL)\n" + s.to_smt2()
        tm = cvc5.TermManager() if hasattr(cvc5, "TermManager") else None
        slv = cvc5.Solver(tm) if tm is not None else cvc5.Solver()
        slv.setOption("tlimit-per", str(tlimit_ms))
        parser = cvc5.InputParser(slv)
        parser.setStringInput(cvc5.InputLanguage.SMT_LIB_2_6, smt, "q")
        sm = parser.getSymbolManager()
        res = "unknown"
        while True:
            cmd = parser.nextCommand()
            if cmd.isNull():
                break
            out = str(cmd.invoke(slv, sm)).strip()
            if out in ("sat", "unsat"):
                res = out
        return res
    except Exception:  # noqa: BLE001 - best effort second opinion
        return "unknown"


def zabs(t):
    return z3.If(t >= 0, t, -t)


def zsign(t):
    return z3.If(t > 0, z3.RealVal(1), z3.If(t < 0, z3.RealVal(-1), z3.RealVal(0)))


def lift(x):
    """Python/numpy number -> z3 term.  Floats are read through their shortest decimal repr."""
    if isinstance(x, SymReal):
        return x.t
    if isinstance(x, (bool, SymBool)):
        raise TypeError("bool in arithmetic")
    if isinstance(x, int):
        return z3.RealVal(x)
    if isinstance(x, float):
        if x != x or x in (float("inf"), float("-inf")):
            raise TypeError("non-finite float")
        return z3.RealVal(str(Fraction(repr(float(x)))))
    if isinstance(x, Fraction):
        return z3.RealVal(str(x))
    try:
        import numpy as np

        if isinstance(x, np.floating):
            return lift(float(x))
        if isinstance(x, np.integer):
            return z3.RealVal(int(x))
    except ImportError:  # pragma: no cover
        pass
    raise TypeError(type(x))


class SymBool:
    __slots__ = ("t",)

    def __init__(self, t):
        self.t = t

    def __bool__(self):
        if CUR is None:
            raise RuntimeError("SymBool decided outside an exploration")
        return CUR.decide(self.t)

    def __and__(self, o):
        return SymBool(z3.And(self.t, tobool(o)))

    __rand__ = __and__

    def __or__(self, o):
        return SymBool(z3.Or(self.t, tobool(o)))

    __ror__ = __or__

    def __invert__(self):
        return SymBool(z3.Not(self.t))

    def __eq__(self, o):
        if isinstance(o, (bool, SymBool)):
            return SymBool(self.t == tobool(o))
        return False

    def __ne__(self, o):
        if isinstance(o, (bool, SymBool)):
            return SymBool(self.t != tobool(o))
        return True

    __hash__ = None

    def __repr__(self):
        return "<SymBool %s>" % z3.simplify(self.t).sexpr()[:80]


def tobool(x):
    if isinstance(x, SymBool):
        return x.t
    if isinstance(x, z3.BoolRef):
        return x
    return z3.BoolVal(bool(x))


class SymReal:
    __slots__ = ("t",)
    __array_priority__ = 1000
    __array_ufunc__ = None  # numpy must never take a proxy into C code silently

    def __init__(self, t):
        self.t = t

    # -- arithmetic -----------------------------------------------------------------------------
    def _bin(self, o, f):
        try:
            return SymReal(f(self.t, lift(o)))
        except TypeError:
            return NotImplemented

    def _rbin(self, o, f):
        try:
            return SymReal(f(lift(o), self.t))
        except TypeError:
            return NotImplemented

    def __add__(s, o):
        return s._bin(o, lambda a, b: a + b)

    def __radd__(s, o):
        return s._rbin(o, lambda a, b: a + b)

    def __sub__(s, o):
        return s._bin(o, lambda a, b: a - b)

    def __rsub__(s, o):
        return s._rbin(o, lambda a, b: a - b)

    def __mul__(s, o):
        return s._bin(o, mk_mul)

    def __rmul__(s, o):
        return s._rbin(o, mk_mul)

    def __truediv__(s, o):
        try:
            d = lift(o)
        except TypeError:
            return NotImplemented
        _nonzero(d)
        return SymReal(mk_div(s.t, d))

    def __rtruediv__(s, o):
        try:
            n = lift(o)
        except TypeError:
            return NotImplemented
        _nonzero(s.t)
        return SymReal(mk_div(n, s.t))

    def __neg__(s):
        return SymReal(-s.t)

    def __pos__(s):
        return s

    def __abs__(s):
        return SymReal(zabs(s.t))

    def __pow__(s, o):
        if isinstance(o, int) and not isinstance(o, bool) and o == 2:
            return SymReal(mk_mul(s.t, s.t))
        return NotImplemented

    # -- comparisons ----------------------------------------------------------------------------
    def _cmp(s, o, f):
        try:
            return SymBool(f(s.t, lift(o)))
        except TypeError:
            return NotImplemented

    def __lt__(s, o):
        return s._cmp(o, lambda a, b: a < b)

    def __le__(s, o):
        return s._cmp(o, lambda a, b: a <= b)

    def __gt__(s, o):
        return s._cmp(o, lambda a, b: a > b)

    def __ge__(s, o):
        return s._cmp(o, lambda a, b: a >= b)

    def __eq__(s, o):
        try:
            return SymBool(s.t == lift(o))
        except TypeError:
            return False

    def __ne__(s, o):
        try:
            return SymBool(s.t != lift(o))
        except TypeError:
            return True

    def __hash__(s):
        # One bucket: a dict / set / lru_cache keyed on a looked-up value then compares its keys with ``==`` - i.e. through the solver -
        # exactly as CPython does for floats that happen to collide.  (Unhashable proxies made every such cache a harness error.)
        return 0

    def __bool__(s):
        # Python truthiness of a number: x != 0 (e.g. `table.get(phase) or default`)
        return bool(SymBool(s.t != 0))

    def __round__(s, n=None):
        # contract model of round(): the nearest multiple of 10^-n (exact ties go upward, Python rounds them to even - ties are outside the
        # model; replays are concrete).  Present so that code which buckets / memoises on rounded values stays inside the engine.
        k = z3.RealVal(10) ** (n or 0) if (n or 0) >= 0 else z3.RealVal(1) / (z3.RealVal(10) ** (-n))
        k = z3.simplify(k)
        return SymReal(z3.ToReal(z3.ToInt(s.t * k + z3.RealVal("1/2"))) / k)

    def __float__(s):
        raise TypeError("symbolic value would be concretised (float())")

    def __int__(s):
        raise TypeError("symbolic value would be concretised (int())")

    def __repr__(s):
        return "<Sym %s>" % z3.simplify(s.t).sexpr()[:100]

    def __format__(s, spec):
        return repr(s)


def _nonzero(d):
    """Division guard: fork on d != 0; on the zero side raise (numpy would yield inf/nan)."""
    if is_num(d):
        if z3.simplify(d == 0).eq(z3.BoolVal(True)):
            raise NonFinite("float division by zero")
        return
    if not SymBool(d != 0):
        raise NonFinite("float division by zero")


def sym(name):
    return SymReal(z3.Real(name))


def is_sym(x):
    return isinstance(x, (SymReal, SymBool))


# ---------------------------------------------------------------------------------------------------
class Stats:
    def __init__(self):
        self.paths = 0
        self.aborted = 0
        self.feas_queries = 0
        self.prove_queries = 0
        self.unsat = 0
        self.sat = 0
        self.unknown = 0
        self.refined_unsat = 0
        self.refined_sat = 0
        self.refined_unknown = 0
        self.retried = 0
        self.xcheck_agree = 0
        self.xcheck_disagree = 0
        self.xcheck_unknown = 0
        self.sliced_unsat = 0
        self.cvc5_unsat = 0
        self.solver_s = 0.0
        self.rlimit_spent = 0

    def add(self, o):
        for k, v in o.__dict__.items():
            setattr(self, k, getattr(self, k) + v)

    def as_dict(self):
        d = dict(self.__dict__)
        d["solver_s"] = round(d["solver_s"], 3)
        return d


class Explorer:
    """Re-execution DFS over the branch decisions of ``fn``."""

    def __init__(self, uf=False, rlimit=20_000_000, max_paths=4000, refine_rlimit=60_000_000):
        self.uf = uf
        self.rlimit = rlimit
        self.refine_rlimit = refine_rlimit
        self.max_paths = max_paths
        self.solver = z3.Solver()
        self.solver.set("rlimit", rlimit)
        self.solver.set("timeout", TIMEOUT_MS)  # wall-clock backstop only; verdicts rest on rlimit
        self.depth = 0  # number of pushes held by the solver
        self.trace = []  # [(cond, taken, pushed)] for the current path
        self.prefix = []
        self.cache = {}
        self._keep = []
        self.pending = []
        self.model = None
        self.stats = Stats()
        self._lemma_depth = {}  # lemma id -> solver depth at which it was asserted
        self._lemmas = []
        self.bound_hit = False

    # -- solver plumbing --------------------------------------------------------------------------
    def _flush_lemmas(self):
        for tid, l in self._lemmas:
            if tid not in self._lemma_depth:
                self.solver.add(l)
                self._lemma_depth[tid] = self.depth
        self._lemmas = []

    def _pop_to(self, d):
        while self.depth > d:
            self.solver.pop()
            self.depth -= 1
        dead = [i for i, dd in self._lemma_depth.items() if dd > self.depth]
        for i in dead:
            del self._lemma_depth[i]

    def _check(self, *extra, kind="feas"):
        self._flush_lemmas()
        t = time.time()
        r = self.solver.check(*extra)
        m = self.solver.model() if r == z3.sat else None
        self.stats.solver_s += time.time() - t
        if kind == "feas":
            self.stats.feas_queries += 1
        return r, m

    def note_mul(self, t, a, b):
        i = t.get_id()
        self._keep.append(t)
        if i in self._lemma_depth:
            return
        self._lemmas.append((i, z3.And((t == 0) == z3.Or(a == 0, b == 0),
                                       (t > 0) == z3.Or(z3.And(a > 0, b > 0), z3.And(a < 0, b < 0)))))

    def note_lemma(self, t, lemma):
        """Register a valid fact about term ``t`` (asserted lazily at the current solver level)."""
        self._keep.append(t)
        if t.get_id() not in self._lemma_depth:
            self._lemmas.append((t.get_id(), lemma))

    def note_div(self, t, a, b):
        i = t.get_id()
        self._keep.append(t)
        if i in self._lemma_depth:
            return
        # only meaningful where b != 0 (the proxy guards that before building the term)
        self._lemmas.append((i, z3.Implies(b != 0, z3.And(
            (t == 0) == (a == 0),
            (t > 0) == z3.Or(z3.And(a > 0, b > 0), z3.And(a < 0, b < 0))))))

    def _record(self, cond, taken, pushed):
        """Append a decision to the path trace; push it onto the solver when it is not implied."""
        if pushed:
            self._flush_lemmas()
            self.solver.push()
            self.depth += 1
            self.solver.add(cond if taken else z3.Not(cond))
            if self.model is not None:
                mv = self.model.eval(cond, model_completion=True)
                if not ((z3.is_true(mv) and taken) or (z3.is_false(mv) and not taken)):
                    self.model = None
        self.trace.append((taken, pushed))
        self.cache[cond.get_id()] = taken
        self._keep.append(cond)  # ids are recycled once a term is freed

    def _replay(self, cond):
        """Follow the recorded prefix for the k-th decision of this path."""
        k = len(self.trace)
        taken, pushed = self.prefix[k]
        if k < self._reuse:  # the solver already holds this part of the path
            self.trace.append((taken, pushed))
            self.cache[cond.get_id()] = taken
            self._keep.append(cond)  # ids are recycled once a term is freed
        else:
            self._record(cond, taken, pushed)
        return taken

    # -- decisions --------------------------------------------------------------------------------
    def _tick(self, taken):
        """A decision that needs no solver (constant after simplification / already decided on this path) still takes one slot of the
        trace.  The trace is then aligned by CALL COUNT: whether such a shortcut applies depends on the syntactic form z3.simplify
        happens to produce, which is not stable between two executions of the same path (argument order follows AST ids) - with
        shortcuts outside the trace, a re-execution could consume the recorded decisions one slot off and walk an infeasible path
        (found with C09 S/replaced/*: a candidate that did not reproduce)."""
        k = len(self.trace)
        if k < len(self.prefix) - 1 and self.prefix[k][0] != taken:
            # the recorded run took the other side here although this side is forced now: the executions differ
            raise Misaligned("decision %d: recorded %r, now forced %r" % (k, self.prefix[k][0], taken))
        self.trace.append((taken, False))
        return taken

    def decide(self, cond):
        cond = z3.simplify(cond)
        if z3.is_true(cond):
            return self._tick(True)
        if z3.is_false(cond):
            return self._tick(False)
        cid = cond.get_id()
        if cid in self.cache:
            return self._tick(self.cache[cid])
        if len(self.trace) < len(self.prefix):
            return self._replay(cond)
        feas = {}
        if self.model is not None and not self._lemmas:
            mv = self.model.eval(cond, model_completion=True)
            if z3.is_true(mv):
                feas[True] = True
            elif z3.is_false(mv):
                feas[False] = True
        for val in (True, False):
            if val in feas:
                continue
            r, m = self._check(cond if val else z3.Not(cond))
            if r == z3.unknown:
                self.stats.unknown += 1
            feas[val] = r != z3.unsat
            if m is not None:
                self.model = m
        if feas[True] and feas[False]:
            self.pending.append(list(self.trace) + [(False, True)])
            self._record(cond, True, True)
            return True
        if not feas[True] and not feas[False]:
            raise Abort()
        taken = feas[True]
        self._record(cond, taken, False)  # implied by the path condition
        return taken

    def assume(self, cond):
        """Constrain the current path (no fork); prune it when infeasible."""
        cond = z3.simplify(tobool(cond))
        if z3.is_true(cond):
            self._tick(True)
            return
        if z3.is_false(cond):
            raise Abort()
        cid = cond.get_id()
        if cid in self.cache:
            if self.cache[cid]:
                self._tick(True)
                return
            raise Abort()
        if len(self.trace) < len(self.prefix):
            self._replay(cond)
            return
        r, m = self._check(cond)
        if r == z3.unsat:
            raise Abort()
        if r == z3.unknown:
            self.stats.unknown += 1
        self.model = m
        self._record(cond, True, True)

    def feasible(self):
        r, m = self._check()
        if r == z3.unknown:
            self.stats.unknown += 1
        return r, m

    def prove(self, cond):
        """Is ``cond`` implied by the current path condition?  -> (verdict, model)
        verdict in {"unsat" (holds), "sat" (model of the exact query), "unknown"}."""
        cond = z3.simplify(tobool(cond))
        self.stats.prove_queries += 1
        if z3.is_true(cond):
            self.stats.unsat += 1
            return "unsat", None
        r, m = self._check(z3.Not(cond), kind="prove")
        if r == z3.unsat:
            self.stats.unsat += 1
            self._xcheck(list(self.solver.assertions()) + [z3.Not(cond)])
            return "unsat", None
        if self.uf:
            return self._refine(z3.Not(cond))
        if r == z3.unknown:
            r, m = self._ladder(list(self.solver.assertions()) + [z3.Not(cond)])
            if r == z3.unsat:
                self.stats.unsat += 1
                self.stats.retried += 1
                return "unsat", None
            if r == z3.unknown:
                self.stats.unknown += 1
                return "unknown", None
            self.stats.retried += 1
        self.stats.sat += 1
        return "sat", m

    def _xcheck(self, assertions):
        """Two solvers: every N-th 'unsat' is re-posed to cvc5; a 'sat' from cvc5 is a disagreement (inconclusive)."""
        if not XCHECK_EVERY:
            return
        self._xn = getattr(self, "_xn", 0) + 1
        if self._xn % XCHECK_EVERY:
            return
        t = time.time()
        v = cvc5_verdict(assertions)
        self.stats.solver_s += time.time() - t
        if v == "unsat":
            self.stats.xcheck_agree += 1
        elif v == "sat":
            self.stats.xcheck_disagree += 1
        else:
            self.stats.xcheck_unknown += 1

    def _ladder(self, assertions):
        """Retry an ``unknown`` query: fresh solvers with other seeds/tactics, then cvc5 (unsat only)."""
        t = time.time()
        try:
            rungs = [(lambda: z3.SolverFor("QF_NRA"), {}), (lambda: z3.Tactic("qfnra-nlsat").solver(), {}),
                     (lambda: z3.Solver(), {"random_seed": 7}), (lambda: z3.SolverFor("QF_NRA"), {"random_seed": 11})]
            for mk, extra in rungs:
                try:
                    s = mk()
                    s.set("timeout", TIMEOUT_MS)
                    for k, v in extra.items():
                        s.set(k, v)
                    s.add(*assertions)
                    r = s.check()
                except z3.Z3Exception:
                    continue
                if r == z3.sat:
                    return r, s.model()
                if r == z3.unsat:
                    return r, None
            if cvc5_verdict(assertions) == "unsat":
                self.stats.cvc5_unsat += 1
                return z3.unsat, None
            return z3.unknown, None
        finally:
            self.stats.solver_s += time.time() - t

    def _refine(self, neg, extra=()):
        """UF said sat/unknown: re-pose with true * and /.  First on a *slice* of the path condition (only the
        conjuncts that share a variable with the goal -- dropping hypotheses is sound for 'unsat'), then in full."""
        t = time.time()
        full = [exact(a) for a in self.solver.assertions()] + [exact(e) for e in extra]
        goal = exact(neg)
        gv = _vars(goal)
        sliced = [a for a in full if _vars(a) & gv]
        r = z3.unknown
        if len(sliced) < len(full):
            s = z3.Solver()
            s.set("rlimit", self.refine_rlimit // 4)
            s.set("timeout", TIMEOUT_MS // 4)
            s.add(*sliced)
            s.add(goal)
            if s.check() == z3.unsat:
                self.stats.solver_s += time.time() - t
                self.stats.refined_unsat += 1
                self.stats.sliced_unsat += 1
                return "unsat", None
        s = z3.Solver()
        s.set("rlimit", self.refine_rlimit)
        s.set("timeout", TIMEOUT_MS)
        s.add(*full)
        s.add(goal)
        r = s.check()
        self.stats.solver_s += time.time() - t
        if r == z3.unsat:
            self.stats.refined_unsat += 1
            return "unsat", None
        if r == z3.sat:
            self.stats.refined_sat += 1
            return "sat", s.model()
        r, m = self._ladder(list(s.assertions()))
        if r == z3.unsat:
            self.stats.refined_unsat += 1
            self.stats.retried += 1
            return "unsat", None
        if r == z3.sat:
            self.stats.refined_sat += 1
            self.stats.retried += 1
            return "sat", m
        self.stats.refined_unknown += 1
        return "unknown", None

    def more_models(self, neg, hard, soft=(), budget_s=25.0):
        """A model of ``pc and neg and hard`` (exact arithmetic); ``soft`` is a list of (term, [candidate values]):
        a greedy pass pins as many inputs as possible to "nice" values -- used only to find a witness that the
        real binary64 iteration reproduces, never for a verdict."""
        s = z3.Solver()
        s.set("rlimit", self.refine_rlimit)
        s.set("timeout", TIMEOUT_MS)
        ex = exact if self.uf else (lambda t: t)
        for a in self.solver.assertions():
            s.add(ex(a))
        s.add(ex(neg))
        for e in hard:
            s.add(ex(e))
        t = time.time()
        out = []
        if s.check() == z3.sat:
            m = s.model()
            s.set("timeout", 3000)
            for term, cands in soft:
                if time.time() - t > budget_s:
                    break
                for cv in cands:
                    s.push()
                    s.add(term == lift(cv))
                    if s.check() == z3.sat:
                        m = s.model()
                        break
                    s.pop()
            out.append(m)
        self.stats.solver_s += time.time() - t
        return out

    # -- driver -----------------------------------------------------------------------------------
    def explore(self, fn, on_path):
        """Run ``fn`` once per feasible path; ``on_path(result)`` is called *inside* the path
        (solver holds the path condition) with ("ok", value) or ("exc", exception)."""
        global CUR
        self.pending = [[]]
        prev = CUR
        CUR = self
        try:
            while self.pending:
                if self.stats.paths + self.stats.aborted >= self.max_paths:
                    self.bound_hit = True
                    break
                self.prefix = self.pending.pop()
                common = 0
                old = self.trace
                while (common < len(old) and common < len(self.prefix) - 1
                       and old[common] == self.prefix[common]):
                    common += 1
                pushes = sum(1 for _, p in old[:common] if p)
                if pushes > self.depth:  # path was cut short before all pushes happened
                    pushes = self.depth
                    cnt = 0
                    common = 0
                    for _, p in old:
                        if p:
                            if cnt == pushes:
                                break
                            cnt += 1
                        common += 1
                self._pop_to(pushes)
                self._reuse = common
                self.trace = []
                self.cache = {}
                self._keep = []
                self.model = None
                self._lemmas = []
                try:
                    try:
                        res = ("ok", fn())
                    except Abort:
                        raise
                    except Exception as e:  # noqa: BLE001 - repo exceptions are path outcomes
                        res = ("exc", e)
                    on_path(res)
                    self.stats.paths += 1
                except Abort:
                    self.stats.aborted += 1
                except Misaligned as e:
                    raise RuntimeError("re-execution of a path diverged from its recorded decisions (%s): inconclusive" % e) from None
                    continue
        finally:
            CUR = prev
            self.stats.rlimit_spent = 0
        return self.stats
