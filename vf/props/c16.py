"""C16 -- results depend on the final structure only, not on the edit history."""
from ..core import Instance
from .. import hist
from .c14 import META14

META = dict(META14)
META.update({
    "explanation": "Base histories (with deletions with/without children, replacement, rename through change_comp, re-adding after deletion, edits above and "
                   "below a PMux, phase configuration) followed by 0 or 1 symbolic accepted call; the edited system's solve/rail_rep/params/limits/phases/tree/save "
                   "must all run, list exactly the live components, and equal - row by row, matched by component name - those of a system built from scratch from "
                   "the harness's own model of the final structure, in the same and in permuted insertion orders.",
    "functions": ["system.System.change_comp/del_comp/add_comp registries", "system.System._rel_update/_get_parents/_sys_vars/_get_topo_sort",
                  "system.System._pars_and_limits/phases/save", "components._Component._get_params"],
    "bounds": "11 base histories x {0,1} symbolic calls x 3 insertion orders of the fresh build; numeric parameters concrete",
    "outside": "make_diag/make_hdiag (Graphviz); longer histories",
})


def instances(tier):
    out = []
    for b in hist.BASES:
        for perm in (0, 1, 2):
            out.append(Instance("C16", "c14:h_final_structure", dict(base=b, nsym=0, permute=perm), name="H/%s/base/order%d" % (b, perm),
                                cover=["successful-history"], weight=1))
        out.append(Instance("C16", "c14:h_final_structure", dict(base=b, nsym=1, permute=0), name="H/%s/+1" % b, cover=["successful-history"],
                            max_paths=30000, weight=10, time_limit=2500))
    return out, META


# ---------------------------------------------------------------------------------------------------
def e_echo(ctx, shape, lim_keys=("vi", "tp"), limited=None):
    """params(), limits() and phases() show for each component the parameters, the NON-DEFAULT limits and the per-phase
    values it was configured with (tables as 'interp') - an absolute oracle (a display bug is the same in an edited and
    in a freshly built system, so the comparison above cannot see it)."""
    from .. import sysh, spec, snap
    from ..build import PARAMS, cls_of
    from ..ops import Eq, Abs, cond, And, Or, Not, Implies
    from .c09 import mk_limits, DEFAULTS

    shape = {**shape, "nodes": [dict(n) for n in shape["nodes"]]}
    lims = {nd["name"]: {} for nd in shape["nodes"]}
    for nd in shape["nodes"]:
        # symbolic limits on two components only: every limit forks three ways (different / equal to the default)
        if nd["name"] in (limited or [n["name"] for n in shape["nodes"]][1:3]):
            lims[nd["name"]] = mk_limits(ctx, nd["name"], list(lim_keys))
            nd["limits"] = lims[nd["name"]]
    sysobj, info, durations = sysh.build_system(ctx, shape, rt="all")
    cols = {"vo (V)": "vo", "vdrop (V)": "vdrop", "rs (Ohm)": "rs", "rt (°C/W)": "rt", "eff (%)": "eff", "ig (A)": "ig", "iq (A)": "iq",
            "ii (A)": "ii", "iis (A)": "iis", "pwr (W)": "pwr", "pwrs (W)": "pwrs", "loss": "loss"}
    defaults = {"rs": 0.0, "rt": 0.0, "iq": 0.0, "ig": 0.0, "iis": 0.0, "pwrs": 0.0, "vdrop": 0.0}
    pf = sysobj.params(limits=True)
    lf = sysobj.limits()
    ctx.cover("reported")
    names = [n["name"] for n in shape["nodes"]]
    ctx.check("params-lists-exactly-the-components", cond(sorted(pf["Component"].tolist()) == sorted(names)))
    for _, r in pf.iterrows():
        name = r["Component"]
        kind, P = info[name]["kind"], info[name]["P"]
        ctx.check("type-column", cond(r["Type"] == spec.TYPE_NAME[kind]), info={"row": name})
        has = set(PARAMS[kind]) | ({"loss"} if kind in spec.LOADS else set()) | ({"rt"} if kind == "Source" else set())
        for col, key in cols.items():
            cell = r[col]
            inf = {"row": name, "col": col}
            if key not in has:
                ctx.check("parameter-not-of-this-kind-is-blank", cond(isinstance(cell, str) and cell == ""), info=inf)
                continue
            given = P.get(key, defaults.get(key, 0.0) if key != "loss" else False)
            if isinstance(given, spec.Table):
                ctx.check("table-shown-as-interp", cond(isinstance(cell, str) and cell == "interp"), info=inf)
            elif key == "loss":
                ctx.check("configured-parameter-shown", cond(cell is given or cell == given), info=inf)
            elif isinstance(given, list):
                ctx.check("configured-parameter-shown", cond(isinstance(cell, list) and len(cell) == len(given)), info=inf)
                if isinstance(cell, list):
                    for a, b in zip(cell, given):
                        ctx.check("configured-parameter-shown", Eq(Abs(a), Abs(b)), info=inf)
            else:
                if isinstance(cell, str):
                    ctx.fail("configured-parameter-shown", info={**inf, "cell": cell})
                else:
                    ctx.check("configured-parameter-shown", Eq(Abs(cell), Abs(given)), info=inf)
    lcols = {"vi": "(V)", "vo": "(V)", "vd": "(V)", "ii": "(A)", "io": "(A)", "pi": "(W)", "po": "(W)", "pl": "(W)", "tr": "(°C)", "tp": "(°C)"}
    for frame, sep in ((pf, " limit "), (lf, "  ")):
        for _, r in frame.iterrows():
            name = r["Component"]
            for k, unit in lcols.items():
                col = "%s%s%s" % (k, sep, unit)
                if col not in frame.columns:
                    ctx.fail("limit-column-present", info={"col": col})
                    continue
                cell = r[col]
                inf = {"row": name, "col": col}
                if k in lims[name]:
                    lo, hi = lims[name][k]
                    is_default = And(Eq(lo, DEFAULTS[k][0]), Eq(hi, DEFAULTS[k][1]))
                    if isinstance(cell, str):
                        ctx.check("non-default-limit-shown", is_default, info=inf)  # blank only if it equals the default
                    else:
                        ctx.check("shown-limit-is-the-configured-one", And(Eq(cell[0], lo), Eq(cell[1], hi)), info=inf)
                        ctx.check("default-limit-shown-blank", Not(is_default), info=inf)
                else:
                    ctx.check("unconfigured-limit-blank", cond(isinstance(cell, str) and cell == ""), info=inf)
    if not durations:
        ctx.check("phases()-is-None-without-phases", cond(sysobj.phases() is None))
        return
    ph = sysobj.phases()
    rows = {}
    for _, r in ph.iterrows():
        rows.setdefault(r["Component"], []).append(r)
    ctx.check("phases-lists-exactly-the-components", cond(sorted(rows) == sorted(names)))
    for name, rs_ in rows.items():
        kind, conf, P = info[name]["kind"], info[name]["conf"], info[name]["P"]
        listed = [p for p in durations if conf and p in conf]
        got = [r["Active phase"] for r in rs_]
        if kind in ("RLoss", "VLoss") or not listed:
            ctx.check("active-phase-cells", cond(got == ["N/A"]), info={"row": name, "got": got})
        else:
            ctx.check("active-phase-cells", cond(got == listed), info={"row": name, "got": got, "want": listed})
        if kind in spec.LOADS:
            col = {"PLoad": "pwr (W)", "ILoad": "ii (A)", "RLoad": "rs (Ohm)"}[kind]
            key = {"PLoad": "pwr", "ILoad": "ii", "RLoad": "rs"}[kind]
            for r in rs_:
                want = conf[r["Active phase"]] if (conf and r["Active phase"] in conf) else Abs(P[key])
                cell = r[col]
                if isinstance(cell, str):
                    ctx.fail("per-phase-value-shown", info={"row": name, "phase": r["Active phase"]})
                else:
                    ctx.check("per-phase-value-shown", Eq(cell, want), info={"row": name, "phase": r["Active phase"]})
                for other in ("pwr (W)", "ii (A)", "rs (Ohm)"):
                    if other != col:
                        ctx.check("other-load-columns-blank", cond(isinstance(r[other], str) and r[other] == ""), info={"row": name, "col": other})


_old_instances = instances


def instances(tier):
    from ..shapes import S, N
    from .. import shapes

    out, meta = _old_instances(tier)
    echo = {
        "all-kinds-a": S(N("S", "Source"), N("C", "Converter", "S"), N("G", "LinReg", "C"), N("L1", "PLoad", "G"), N("L2", "ILoad", "C", loss=True),
                         N("L3", "RLoad", "S")),
        "all-kinds-b": S(N("S", "Source"), N("R", "RLoss", "S"), N("V", "VLoss", "R"), N("W", "PSwitch", "V"), N("D", "RectD", "W"), N("M", "RectM", "D"),
                         N("L", "ILoad", "M")),
        "tables": S(N("S", "Source"), N("C", "Converter", "S", form="t1x2"), N("G", "LinReg", "C", form="ct2x2x2"), N("V", "VLoss", "G", form="t1x2"),
                    N("L", "PLoad", "V")),
        "mux": S(N("S1", "Source"), N("S2", "Source"), N("M", "PMux", ["S1", "S2"], rs_list=True), N("L", "PLoad", "M")),
        "phases": S(N("S", "Source", phases=["a"]), N("C", "Converter", "S", phases=["a", "b"]), N("R", "RLoss", "C"), N("L1", "PLoad", "R", phases=["b"]),
                    N("L2", "ILoad", "C", phases=["a", "b"]), N("L3", "RLoad", "S", phases=["a"]), N("L4", "PLoad", "S"), phases=["a", "b"]),
    }
    for sid, sh in echo.items():
        out.append(Instance("C16", "c16:e_echo", dict(shape=sh), name="E/echo/" + sid, cover=["reported"], weight=10, max_paths=20000))
    return out, meta
