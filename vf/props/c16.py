"""C16 -- results depend on the final structure only, not on the edit history."""
from ..core import Instance
from .. import hist
from .c14 import META14

META = dict(META14)
META.update({
    "explanation": "Base histories (with deletions with/without children, replacement, rename through change_comp, re-adding after deletion, edits above and "
                   "below a PMux, phase configuration) followed by 0 or 1 symbolic accepted call; the edited system's solve/rail_rep/params/limits/phases/tree/save "
                   "must all run, list exactly the live components, and equal - row by row, matched by component name - those of a system built from scratch from "
                   "the harness's own model of the final structure, in the same and in permuted insertion orders.",
    "functions": ["system.System.change_comp/del_comp/add_comp registries", "system.System._rel_update/_get_parents/_sys_vars/_get_topo_sort",
                  "system.System._pars_and_limits/phases/save", "components._Component._get_params"],
    "bounds": "11 base histories x {0,1} symbolic calls x 3 insertion orders of the fresh build; numeric parameters concrete",
    "outside": "make_diag/make_hdiag (Graphviz); longer histories",
})


def instances(tier):
    out = []
    for b in hist.BASES:
        for perm in (0, 1, 2):
            out.append(Instance("C16", "c14:h_final_structure", dict(base=b, nsym=0, permute=perm), name="H/%s/base/order%d" % (b, perm),
                                cover=["successful-history"], weight=1))
        out.append(Instance("C16", "c14:h_final_structure", dict(base=b, nsym=1, permute=0), name="H/%s/+1" % b, cover=["successful-history"],
                            max_paths=30000, weight=10, time_limit=2500))
    return out, META
