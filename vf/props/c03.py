"""C03 -- solve() returns only converged, finite, physical steady states, else raises."""
from ..core import Instance
from ..ops import Eq, And, Or, Not, Implies, Iff, IsZero, Gt, Ge, Lt, Le, Abs, cond, TRUE, FALSE, Sign
from .. import spec, sysh, shapes, symx
from ..shapes import S, N
from .c01 import META as M1
from .sys_common import sel_terms

ATOL = 1e-8  # numpy.allclose default


class Spy:
    """Records the (inputs, outputs) of every real sweep without changing behaviour."""

    def __init__(self, sysobj):
        self.sys = sysobj
        self.sweeps = []  # dicts v_in, i_in, v_out, i_out
        self._f, self._b = sysobj._fwd_prop, sysobj._back_prop
        spy = self

        def fwd(v, i, *a_, **kw_):
            vo, ost = spy._f(v, i, *a_, **kw_)
            spy.sweeps.append({"v_in": list(v), "i_in": list(i), "v_out": list(vo)})
            return vo, ost

        def back(v, i, *a_, **kw_):
            ii = spy._b(v, i, *a_, **kw_)
            spy.sweeps[-1]["i_out"] = list(ii)
            spy.sweeps[-1]["v_used_for_currents"] = list(v)
            return ii

        sysobj._fwd_prop, sysobj._back_prop = fwd, back

    def close(self):
        del self.sys._fwd_prop
        del self.sys._back_prop


def _close(a, b, rtol):
    """numpy.allclose's documented predicate, element-wise."""
    return And(*[Le(Abs(x - y), ATOL + rtol * Abs(y)) for x, y in zip(a, b)])


def s_converged(ctx, shape, maxiter, delete=()):
    """(a) what is returned is the iterate whose image passed the real test with the requested tolerances; more
    than maxiter failed tests => RuntimeError; never more than maxiter+1 sweeps."""
    sysobj, info, durations = sysh.build_system(ctx, shape)
    for nm in delete:  # leaves a hole in the node numbering: the iterate vectors are longer than the number of components
        sysobj.del_comp(nm)
    vtol, itol = ctx.real("vtol"), ctx.real("itol")
    ctx.assume(And(Gt(vtol, 0.0), Le(vtol, 0.01), Gt(itol, 0.0), Le(itol, 0.01)))
    ctx.nice(vtol, [1e-6, 1e-4])
    ctx.nice(itol, [1e-6, 1e-4])
    names = {idx: nm for nm, idx in sysobj._g.attrs["nodes"].items()}
    if ctx.symbolic:
        from .. import shims

        shims.ALLCLOSE_MODE[0], shims.ALLCLOSE_HOOK[0] = "tolerance", None
        orig_init = sysobj._sys_init

        def sym_init(*a_, **kw_):
            v0, i0, state = orig_init(*a_, **kw_)
            from ..shims import SymArr

            v, i = SymArr([0.0] * len(v0)), SymArr([0.0] * len(i0))
            for idx, nm in names.items():
                v[idx] = ctx.iter_real("v0[%s]" % nm)
                i[idx] = ctx.iter_real("i0[%s]" % nm)
                ctx.ex.assume((i[idx] >= 0).t)
            return v, i, state

        sysobj._sys_init = sym_init
    spy = Spy(sysobj)
    import sysloss.components as C

    old_w = C._Component._solv_get_warns
    C._Component._solv_get_warns = lambda self_, *a, **k: ""
    outcome, df = "returned", None
    try:
        df = sysobj.solve(vtol=vtol, itol=itol, maxiter=maxiter)
    except RuntimeError as e:
        if "Steady-state not achieved" not in str(e):
            raise
        outcome = "runtime-error"
    except ValueError as e:
        if "Unstable system" not in str(e):
            raise
        outcome = "unstable"
    finally:
        C._Component._solv_get_warns = old_w
        spy.close()
        if ctx.symbolic:
            del sysobj._sys_init
            shims.ALLCLOSE_MODE[0] = "exact"
    ctx.cover(outcome)
    n = len(spy.sweeps)
    ctx.check("at-most-maxiter+1-sweeps", cond(n <= maxiter + 1), info={"sweeps": n, "maxiter": maxiter})
    if outcome == "unstable":
        return
    complete = [s for s in spy.sweeps if "i_out" in s]
    tests = [And(_close(s["v_in"], s["v_out"], vtol), _close(s["i_in"], s["i_out"], itol)) for s in complete]
    if outcome == "runtime-error":
        # "no convergence within maxiter": every one of the first maxiter tests failed (the loop performs one more sweep,
        # whose result is not accepted any more)
        ctx.check("raises-only-after-maxiter+1-sweeps", cond(n == maxiter + 1), info={"sweeps": n})
        for k, t in enumerate(tests[:maxiter]):
            ctx.check("raises-only-if-no-test-within-maxiter-passed", Not(t), info={"sweep": k})
        return
    ctx.check("returned-within-maxiter-sweeps", cond(n <= maxiter), info={"sweeps": n})
    last = complete[-1]
    ctx.check("returned-iterate-passed-the-test", tests[-1], info={"sweeps": n})
    for k, t in enumerate(tests[:-1]):
        ctx.check("earlier-sweeps-had-failed", Not(t), info={"sweep": k})
    # the table reports exactly the iterate that was tested (not an intermediate one)
    rows = sysh.table_rows(df)[""]
    for idx, nm in names.items():
        ctx.check("table-vout-is-tested-iterate", Eq(rows[nm]["vout"], last["v_in"][idx]), info={"row": nm})
        ctx.check("table-iin-is-tested-iterate", Eq(rows[nm]["iin"], last["i_in"][idx]), info={"row": nm})
    # currents were computed from the freshly propagated voltages of the same sweep
    ctx.check("currents-from-new-voltages", And(*[Eq(a, b) for a, b in zip(last["v_used_for_currents"], last["v_out"])]))


def s_physical(ctx, shape):
    """(c) no returned steady state in which a passive series element inverted or amplified its input."""
    sysobj, info, durations = sysh.build_system(ctx, shape)
    try:
        df = sysh.run_solve(ctx, sysobj, shape, polarity=False)
    except sysh.Unstable:
        ctx.cover("unstable-raised")
        return
    ctx.cover("returned")
    rows = sysh.table_rows(df)[""]
    for nd in shape["nodes"]:
        name, kind = nd["name"], nd["kind"]
        r, P = rows[name], info[name]["P"]
        if kind == "Source":
            ok = Or(IsZero(r["vout"]), And(Eq(Sign(r["vout"]), Sign(P["vo"])), Le(Abs(r["vout"]), Abs(P["vo"]))))
            ctx.check("source-resistance-never-inverts-or-amplifies", ok, key="polarity/Source", info={"row": name})
        elif kind in spec.SERIES:
            vin = r["vin"]
            if kind in ("RectD", "RectM"):
                # a rectifier's output is a magnitude: an inverted bridge (two drops larger than the input) would be FOLDED back
                # into [0, |vin|) by abs() - so besides the range, the two drops must not exceed the input
                ok = And(Ge(r["vout"], 0.0), Le(r["vout"], Abs(vin)),
                         Or(IsZero(vin), spec.keeps_polarity(kind, P, vin, r["iout"])))
            else:
                ok = Or(IsZero(r["vout"]), And(Eq(Sign(r["vout"]), Sign(vin)), Le(Abs(r["vout"]), Abs(vin))))
            ctx.check("series-element-never-inverts-or-amplifies", ok, key="polarity/%s" % kind, info={"row": name, "kind": kind})


def s_feedforward(ctx, shape):
    """(d-i) feed-forward trees (no series resistance): the real loop from the real initial iterate converges
    within 2*depth+2 sweeps (voltages settle top-down, then currents bottom-up) for all parameter values - i.e. RuntimeError is
    infeasible with maxiter = 2*depth+2."""
    sysobj, info, durations = sysh.build_system(ctx, shape)
    depth = sysh.depth_of(shape)
    if ctx.symbolic:
        from .. import shims

        shims.ALLCLOSE_MODE[0], shims.ALLCLOSE_HOOK[0] = "tolerance", None
    import sysloss.components as C

    old_w = C._Component._solv_get_warns
    C._Component._solv_get_warns = lambda self_, *a, **k: ""
    try:
        df = sysobj.solve(maxiter=2 * depth + 2)
        ctx.cover("converged")
        ctx.check("found-within-2*depth+2-sweeps", TRUE)
    except RuntimeError as e:
        if "Steady-state not achieved" not in str(e):
            raise
        ctx.fail("found-within-2*depth+2-sweeps", info={"depth": depth})
    except ValueError as e:
        if "Unstable system" not in str(e):
            raise
        ctx.cover("unstable")
    finally:
        C._Component._solv_get_warns = old_w
        if ctx.symbolic:
            shims.ALLCLOSE_MODE[0] = "exact"


def s_divzero(ctx, shape, phase):
    """(b) "never returns NaN/inf, never an intermediate iterate": a law that divides by zero INSIDE solve().  The API accepts a phase
    value of 0 ohm for an RLoad (the constructor rejects it).  Such a path has no real-number semantics (numpy carries on with
    inf / nan), so it is decided per path on one concrete witness run through the unmodified float code (ctx.probe): solve() must
    raise (RuntimeError - the non-finite iterate never passes the convergence test) or return a finite table that is a steady state."""
    sysobj, info, durations = sysh.build_system(ctx, shape)
    zero_loads = [nd["name"] for nd in shape["nodes"] if nd.get("zero_ohm_ok")]
    if ctx.symbolic:
        from .. import shims
        import sysloss.components as C

        shims.ALLCLOSE_MODE[0], shims.ALLCLOSE_HOOK[0] = "tolerance", None
        old_w = C._Component._solv_get_warns
        C._Component._solv_get_warns = lambda self_, *a, **k: ""
        try:
            sysobj.solve(maxiter=2, phase=phase)
            ctx.cover("returned")
        except symx.NonFinite:
            ctx.cover("division-by-zero-inside-solve")
            ctx.probe("division-by-zero=>raises-or-finite-steady-state", key="divzero/%s" % phase, info={"phase": phase})
        except RuntimeError as e:
            if "Steady-state not achieved" not in str(e):
                raise
            ctx.cover("runtime-error")
        except ValueError as e:
            if "Unstable system" not in str(e):
                raise
        finally:
            C._Component._solv_get_warns = old_w
            shims.ALLCLOSE_MODE[0] = "exact"
        return
    import math
    import numpy as np

    with np.errstate(all="ignore"):
        try:
            df = sysobj.solve(maxiter=300, phase=phase)
        except RuntimeError as e:
            if "Steady-state not achieved" not in str(e):
                raise
            return
        except ValueError as e:
            if "Unstable system" not in str(e):
                raise
            return
        except (ZeroDivisionError, FloatingPointError):
            return  # raising is allowed ("else raises")
    rows = sysh.table_rows(df)[phase]
    bad = []
    for nm, r in rows.items():
        for k in ("vin", "vout", "iin", "iout", "pwr", "loss"):
            v = r.get(k)
            if isinstance(v, (int, float)) and not math.isfinite(v):
                bad.append("%s.%s=%r" % (nm, k, v))
    for nm in zero_loads:
        conf = info[nm]["conf"] or {}
        if phase in conf and abs(conf[phase]) == 0.0 and abs(rows[nm]["vin"]) > 1e-9:
            # 0 ohm across a live rail: no finite current satisfies I*R = V
            bad.append("%s: %g V across 0 ohm with Iin=%r is not a steady state" % (nm, rows[nm]["vin"], rows[nm]["iin"]))
    ctx.check("division-by-zero=>raises-or-finite-steady-state", cond(not bad), key="divzero/%s" % phase, info={"phase": phase, "bad": bad[:6]})


def u_finite(ctx, kind, form="const", phase="none"):
    """(b) no law divides by a quantity that can be zero, for constructor-accepted parameters (any sign), any vi, io>=0."""
    from ..build import params, construct
    from .c01 import phase_args

    P = params(ctx, kind, "X", form)
    ctx.assume(spec.valid(kind, P))
    comp = construct(kind, "X", P)
    vi, io, ta = ctx.real("vi"), ctx.real("io"), ctx.real("ta")
    ctx.assume(io >= 0)
    ph, conf, active, lval = phase_args(ctx, kind, P, phase)
    if kind == "Converter":
        ctx.assume(Not(IsZero(P["vo"])))
    for off in (False, True):
        pst = {"off": [off]}
        try:
            vo, _ = comp._solv_outp_volt([vi], 0.0, io, ph, conf, pst)
        except ValueError as e:
            if "Unstable" not in str(e):
                raise
            vo = 0.0
        except symx.NonFinite:
            ctx.fail("no-division-by-zero", key="nonfinite/%s/vout" % kind)
            return
        try:
            ii = comp._solv_inp_curr([vi], vo, io, ph, conf, pst)
            comp._solv_pwr_loss(vi, vo, ii, io, ta, ph, conf)
        except symx.NonFinite:
            ctx.fail("no-division-by-zero", key="nonfinite/%s" % kind, info={"kind": kind})
            return
    ctx.cover("evaluated")
    ctx.check("no-division-by-zero", TRUE)


# ---------------------------------------------------------------------------------------------------
def s_contraction(ctx, shape, essential, k=1, q=0.5):
    """(d-ii) One-feedback shapes: a solver-proved CONTRACTION lemma on the real sweeps.

    X* : a fixed point of the real sweep (v* = F(X*), i* = G(F(X*), X*)) in which every series element drops at most 20 %.
    Y  : an arbitrary iterate (currents >= 0);  X1 = T^w(Y), w = depth+1 real warm-up sweeps (every state the real loop
         visits after its first w sweeps has this form, and the form is preserved by T).
    Basin B(X): the voltages F(X) that the next sweep computes keep every series drop <= 30 %.
    Lemma (solver, exact NRA):  B(X1)  =>  |x(T(X1)) - x*| <= q*|x(X1) - x*|  and  B(T(X1)),   x = the essential load current.
    With the real initial iterate in B after warm-up (checked separately on the real _sys_init) the loop approaches X*
    geometrically, so 10000 sweeps at rtol 1e-6 are ample (q = 0.5: < 40 sweeps) - that last arithmetic step is the only
    part outside the solver."""
    from ..shims import SymArr

    sysobj, info, durations = sysh.build_system(ctx, shape)
    sysobj._rel_update()
    v0, i0, state0 = sysobj._sys_init("")
    names = {nm: idx for nm, idx in sysobj._g.attrs["nodes"].items()}
    n = len(v0)
    depth = sysh.depth_of(shape)
    src = shape["nodes"][0]["name"]
    vo = info[src]["P"]["vo"]

    def modest(v, frac):
        cs = []
        for nd in shape["nodes"]:
            if nd["kind"] in spec.LOADS:
                continue
            idx = names[nd["name"]]
            ps = info[nd["name"]]["parents"]
            vin = vo if not ps else v[names[ps[0]]]
            if nd["kind"] in ("Converter", "LinReg"):
                cs.append(Gt(v[idx], 0.0))
                continue
            cs.append(And(Ge(v[idx], (1.0 - frac) * vin), Le(v[idx], vin), Gt(vin, 0.0)))
        return And(*cs)

    def sweep(v, i, st):
        nv, nst = sysobj._fwd_prop(v, i, "", st)
        ni = sysobj._back_prop(nv, i, "", st)
        return nv, ni, nst

    try:
        # ---- fixed point with modest drops
        vs, is_ = SymArr([0.0] * n), SymArr([0.0] * n)
        for nm, idx in names.items():
            vs[idx], is_[idx] = ctx.iter_real("v*[%s]" % nm), ctx.iter_real("i*[%s]" % nm)
            ctx.assume(is_[idx] >= 0)
        f1, g1, _ = sweep(vs, is_, state0)
        for nm, idx in names.items():
            ctx.assume(Eq(vs[idx], f1[idx]))
            ctx.assume(Eq(is_[idx], g1[idx]))
        ctx.assume(modest(vs, 0.2))
        xs = is_[names[essential]]
        ctx.assume(Gt(xs, 0.0))
        # ---- arbitrary iterate, warm-up
        v, i = SymArr([0.0] * n), SymArr([0.0] * n)
        for nm, idx in names.items():
            v[idx], i[idx] = ctx.iter_real("v[%s]" % nm), ctx.iter_real("i[%s]" % nm)
            ctx.assume(i[idx] >= 0)
        st = state0
        for _ in range(depth + 1):
            v, i, st = sweep(v, i, st)
            ctx.assume(modest(v, 0.3))  # the warm-up itself stays inside the basin
        x1 = i[names[essential]]
        nv, ni, nst = sweep(v, i, st)
        ctx.assume(modest(nv, 0.3))     # B(X1)
        x2 = ni[names[essential]]
        nv2, ni2, _ = sweep(nv, ni, nst)
    except ValueError as e:
        if "Unstable" in str(e):
            ctx.note("unstable-outside-basin")
            from ..core import Skip

            raise Skip("polarity lost: outside the basin")
        raise
    ctx.cover("swept")
    ctx.check("essential-current-error-halves", Le(Abs(x2 - xs), q * Abs(x1 - xs)))
    ctx.check("iterate-stays-in-basin", modest(nv2, 0.3))


def s_basin_entry(ctx, shape):
    """The REAL initial iterate enters the basin: after depth+1 real sweeps from the real _sys_init, every series drop
    is <= 30 %, provided a modest-drop (<= 20 %) steady state exists."""
    from ..shims import SymArr

    sysobj, info, durations = sysh.build_system(ctx, shape)
    sysobj._rel_update()
    v, i, st = sysobj._sys_init("")
    names = {nm: idx for nm, idx in sysobj._g.attrs["nodes"].items()}
    src = shape["nodes"][0]["name"]
    vo = info[src]["P"]["vo"]
    n = len(v)
    ctx.cover("swept")
    # existence of the modest steady state
    vs, is_ = SymArr([0.0] * n), SymArr([0.0] * n)
    for nm, idx in names.items():
        vs[idx], is_[idx] = ctx.iter_real("v*[%s]" % nm), ctx.iter_real("i*[%s]" % nm)
        ctx.assume(is_[idx] >= 0)
    try:
        f1, s1 = sysobj._fwd_prop(vs, is_, "", st)
    except ValueError as e:
        if "Unstable" in str(e):
            from ..core import Skip

            raise Skip("no polarity-keeping fixed point on this path")
        raise
    g1 = sysobj._back_prop(f1, is_, "", st)
    for nm, idx in names.items():
        ctx.assume(Eq(vs[idx], f1[idx]))
        ctx.assume(Eq(is_[idx], g1[idx]))
    for nd in shape["nodes"]:
        if nd["kind"] in spec.LOADS or nd["kind"] in ("Converter", "LinReg"):
            continue
        idx = names[nd["name"]]
        ps = info[nd["name"]]["parents"]
        vin = vo if not ps else vs[names[ps[0]]]
        ctx.assume(And(Ge(vs[idx], 0.8 * vin), Gt(vin, 0.0)))
    depth = sysh.depth_of(shape)
    for k in range(depth + 2):
        try:
            nv, nst = sysobj._fwd_prop(v, i, "", st)
        except ValueError as e:
            if "Unstable" in str(e):
                ctx.fail("real-start-never-loses-polarity", info={"sweep": k + 1})
                return
            raise
        ni = sysobj._back_prop(nv, i, "", st)
        v, i, st = nv, ni, nst
        for nd in shape["nodes"]:
            if nd["kind"] in spec.LOADS or nd["kind"] in ("Converter", "LinReg"):
                continue
            idx = names[nd["name"]]
            ps = info[nd["name"]]["parents"]
            vin = vo if not ps else v[names[ps[0]]]
            ctx.check("real-start-stays-in-basin", Implies(Gt(vin, 0.0), And(Ge(v[idx], 0.7 * vin), Le(v[idx], vin))), info={"sweep": k + 1, "node": nd["name"]})



META = dict(M1)
META.update({
    "explanation": "(a) the REAL _solve loop (numpy.allclose as its documented tolerance predicate, symbolic vtol/itol) run for maxiter in 0..2 from an "
                   "arbitrary symbolic start iterate; transparent spies on _fwd_prop/_back_prop record each sweep; on every returning path the solver must "
                   "prove that the last compared pair passes the predicate with the requested tolerances, that earlier ones failed, that the table reports the "
                   "tested iterate, and on every raising path that maxiter+1 tests failed; (b) no law can divide by zero for accepted parameters; "
                   "(c) exact fixed points WITHOUT the polarity assumption: no returned state may invert/amplify across a passive series element; "
                   "(d-i) feed-forward trees: RuntimeError infeasible with maxiter = 2*depth+2 from the real initial iterate; (d-ii) two one-feedback shapes: "
                   "solver-proved contraction lemma on the real sweeps (error of the load current halves per sweep inside the <=30 % drop basin, basin "
                   "invariant, real start enters the basin).",
    "functions": ["system.System._solve 809-827", "system.System.solve 924-928", "system.System._fwd_prop/_back_prop/_sys_init",
                  "components.*._solv_outp_volt (polarity guards)", "components.*._solv_inp_curr/_solv_pwr_loss"],
    "bounds": "(a) maxiter in {0,1,2}, shapes <= 3 nodes, vtol/itol in (0,0.01]; (c) curated shapes <= 4 nodes; (d-i) feed-forward shapes <= 5 nodes",
    "outside": "liveness for trees with series-resistance feedback (unbounded iteration of a nonlinear map is not a bounded SMT question; the "
               "contraction lemma (d-ii) is proved for two one-feedback shapes only: Source-rs -> PLoad and Source -> RLoss -> PLoad); binary64 effects; "
               "maxiter > 2 in (a) (the loop body is identical per sweep)",
})


def instances(tier):
    out = []
    a_shapes = {
        "src-rs-pload": S(N("S", "Source"), N("L", "PLoad", "S", only=())),
        "src-rs-iload": S(N("S", "Source"), N("L", "ILoad", "S", only=())),
        "conv-pload": S(N("S", "Source", only=()), N("C", "Converter", "S", only=()), N("L", "PLoad", "C", only=())),
        "switch-rload": S(N("S", "Source", only=()), N("W", "PSwitch", "S", only=("rs",)), N("L", "RLoad", "W", only=())),
    }
    for sid, sh in a_shapes.items():
        for mi in ((0, 1, 2) if tier == "quick" else (0, 1, 2, 3)):
            if mi >= 2 and len(sh["nodes"]) > 2 and tier == "quick":
                continue
            out.append(Instance("C03", "c03:s_converged", dict(shape=sh, maxiter=mi), name="A/%s/maxiter=%d" % (sid, mi), uf=True,
                                cover=["runtime-error"] + (["returned"] if mi else []), weight=30, max_paths=8000))
    hole = S(N("S", "Source", only=()), N("X", "PLoad", "S", only=()), N("L", "PLoad", "S", only=()))
    hole2 = S(N("S", "Source"), N("C", "Converter", "S", only=()), N("X", "RLoss", "S", only=()), N("XL", "ILoad", "X", only=()), N("L", "ILoad", "C", only=()))
    for sid, sh, dl in (("hole-after-delete", hole, ["X"]), ("hole-after-subtree-delete", hole2, ["X"])):
        for mi in (1, 2):
            out.append(Instance("C03", "c03:s_converged", dict(shape=sh, maxiter=mi, delete=dl), name="A/%s/maxiter=%d" % (sid, mi), uf=True,
                                cover=["runtime-error", "returned"], weight=30, max_paths=8000))
    dead = S(N("S", "Source", pol="nonneg", only=()), N("C", "Converter", "S", only=()), N("G", "LinReg", "C", only=()), N("L", "PLoad", "G", only=()))
    for mi in (1, 2):
        out.append(Instance("C03", "c03:s_converged", dict(shape=dead, maxiter=mi), name="A/dead-source-cascade/maxiter=%d" % mi, uf=True,
                            cover=["runtime-error", "returned"], weight=30, max_paths=8000))
    c_shapes = {
        "src-rs-iload": S(N("S", "Source"), N("L", "ILoad", "S", only=())),
        "switch-iload": S(N("S", "Source", only=()), N("W", "PSwitch", "S", only=("rs",)), N("L", "ILoad", "W", only=())),
        "rectm-iload": S(N("S", "Source", only=()), N("D", "RectM", "S", only=("rs",)), N("L", "ILoad", "D", only=())),
        "mux-iload": S(N("S1", "Source", only=()), N("S2", "Source", only=()), N("M", "PMux", ["S1", "S2"], rs_list=True, only=("rs",)), N("L", "ILoad", "M", only=())),
        "rloss-iload": S(N("S", "Source", only=()), N("R", "RLoss", "S"), N("L", "ILoad", "R", only=())),
        "vloss-rectd-iload": S(N("S", "Source", only=()), N("V", "VLoss", "S"), N("D", "RectD", "V"), N("L", "ILoad", "D", only=())),
        "neg-switch-iload": S(N("S", "Source", pol="neg", only=()), N("W", "PSwitch", "S", only=("rs",)), N("L", "ILoad", "W", only=())),
    }
    for sid, sh in c_shapes.items():
        out.append(Instance("C03", "c03:s_physical", dict(shape=sh), name="C/" + sid, uf=True, cover=["returned"], weight=10))
    # (b) at system level: a phase value of 0 ohm (accepted by set_comp_phases) makes the RLoad law divide by zero inside solve()
    dz = {
        "conv-rload0": S(N("S", "Source", only=()), N("C", "Converter", "S", only=()), N("L", "RLoad", "C", only=(), phases=["run", "fault"], zero_ohm_ok=True),
                         phases=["run", "fault"]),
        "src-rs-rload0": S(N("S", "Source"), N("L", "RLoad", "S", only=(), phases=["fault"], zero_ohm_ok=True), N("L2", "ILoad", "S", only=()),
                           phases=["run", "fault"]),
    }
    for sid, sh in dz.items():
        out.append(Instance("C03", "c03:s_divzero", dict(shape=sh, phase="fault"), name="B/divzero/" + sid, uf=True,
                            cover=["division-by-zero-inside-solve", "returned"], weight=10))
    ff = {
        "conv-pload": S(N("S", "Source", only=()), N("C", "Converter", "S"), N("L", "PLoad", "C")),
        "linreg-rload": S(N("S", "Source", only=()), N("G", "LinReg", "S"), N("L", "RLoad", "G")),
        "conv-linreg-iload": S(N("S", "Source", only=()), N("C", "Converter", "S"), N("G", "LinReg", "C"), N("L", "ILoad", "G")),
        "fanout": S(N("S", "Source", only=()), N("C", "Converter", "S"), N("L1", "PLoad", "C"), N("L2", "ILoad", "C"), N("L3", "RLoad", "S")),
        "vloss-rectd": S(N("S", "Source", only=()), N("V", "VLoss", "S"), N("D", "RectD", "V"), N("L", "ILoad", "D")),
        "dead-src": S(N("S", "Source", pol="nonneg", only=()), N("C", "Converter", "S"), N("L", "PLoad", "C")),
    }
    for sid, sh in ff.items():
        out.append(Instance("C03", "c03:s_feedforward", dict(shape=sh), name="D/" + sid, uf=False, cover=["converged"], weight=10))
    cshapes = {
        "src-rs-pload": (S(N("S", "Source"), N("L", "PLoad", "S", only=())), "L", 1),
        "rloss-pload": (S(N("S", "Source", only=()), N("R", "RLoss", "S", only=()), N("L", "PLoad", "R", only=())), "L", 1),
        # a third shape (Source -> PSwitch -> Converter -> PLoad) was tried: the exact NRA query over 4 nested warm-up sweeps did not
        # finish within 15 min, so it is NOT claimed
    }
    for sid, (sh, ess, k) in cshapes.items():
        out.append(Instance("C03", "c03:s_contraction", dict(shape=sh, essential=ess, k=k), name="D2/contraction/" + sid, uf=False,
                            cover=["swept"], weight=40, time_limit=1200))
        out.append(Instance("C03", "c03:s_basin_entry", dict(shape=sh), name="D2/basin-entry/" + sid, uf=False, cover=["swept"], weight=40,
                            time_limit=1200))
    for kind in spec.KINDS:
        if kind == "PMux":
            continue
        phases = ("none", "listed", "unlisted") if (kind in spec.PHASED_LIST or kind in spec.LOADS) else ("none",)
        for ph in phases:
            out.append(Instance("C03", "c03:u_finite", dict(kind=kind, form="const", phase=ph), cover=["evaluated"]))
        from ..build import TABLE_KEY

        if kind in TABLE_KEY:
            out.append(Instance("C03", "c03:u_finite", dict(kind=kind, form="t1x2"), cover=["evaluated"]))
    return out, META


