"""C05 -- PMux feeds from exactly the first live input, and is reported so."""
from ..core import Instance
from .. import shapes
from .c01 import META as M1, u_mux  # noqa: F401

META = dict(M1)
META.update({
    "explanation": "Unit level: real PMux._get_pri_inp/_solv_outp_volt/_solv_inp_curr for k<=4 inputs, all off-flag vectors, symbolic "
                   "voltages (exact).  System level: real solve() from an arbitrary converged iterate on mux shapes with 1..4 inputs "
                   "(sources that may be 0 V, a shared source, regulators/switches below sources, phase-inactive inputs); which input is "
                   "selected is a solver decision.  Obligations: Parent/Rail-in, Vin, Domain = selected input; only the selected input "
                   "carries the mux current; per-input rs; no live input => mux and subtree dead.",
    "functions": ["components.PMux._get_pri_inp/_solv_outp_volt/_solv_inp_curr", "system.System._child_curr", "system.System.solve 956-965",
                  "system.System._find_domain", "system.System._get_parents"],
    "bounds": "1..4 inputs; shape catalogue below; one mux per system (API limit)",
})


def instances(tier):
    out = []
    ks = (1, 2, 3) if tier == "quick" else (1, 2, 3, 4)
    for k in ks:
        for b in range(2 ** k):
            offs = format(b, "0%db" % k)
            for rs_list in (True, False):
                out.append(Instance("C05", "c01:u_mux", dict(k=k, form="const", phase="none", rs_list=rs_list, offs=offs)))
    out.append(Instance("C05", "c01:u_mux", dict(k=2, form="t1x2", phase="none", rs_list=True, offs="00")))
    out.append(Instance("C05", "c01:u_mux", dict(k=2, form="const", phase="unlisted", rs_list=True, offs="00")))
    for sid, sh in shapes.mux_shapes().items():
        out.append(Instance("C05", "sys_common:s_run", dict(shape=sh, oracle="c05"), name="S/" + sid, uf=True, cover=["solved"], weight=20))
    allph = shapes.S(shapes.N("S1", "Source", phases=["a"], only=()), shapes.N("S2", "Source", only=()), shapes.N("C", "Converter", "S2", only=()),
                     shapes.N("M", "PMux", ["S1", "C"], only=("rs",)), shapes.N("L", "ILoad", "M", only=()), phases=["a", "b"])
    out.append(Instance("C05", "sys_common:s_run", dict(shape=allph, oracle="c05"), name="S/all-phases/mux-source-changes", uf=True,
                        cover=["solved"], weight=30))
    for sid in ("mux-inactive", "mux-input-inactive", "mux-src-inactive", "mux-inactive-first-dead"):
        sh = shapes.phase_shapes()[sid]
        for ph in sh["phases"]:
            out.append(Instance("C05", "sys_common:s_run", dict(shape=sh, oracle="c05", opts={"phase": ph}),
                                name="S/%s@%s" % (sid, ph), uf=True, cover=["solved"], weight=20))
    for sid in ("mux-dead-first", "mux3-dead-patterns"):
        out.append(Instance("C05", "sys_common:s_real_loop", dict(shape=shapes.real_loop_shapes()[sid], oracle="c05"), name="RL/" + sid, uf=True,
                            cover=["solved"], weight=20))
    sh = shapes.real_loop_phase_shapes()["mux-input-inactive"]
    for ph in sh["phases"]:
        out.append(Instance("C05", "sys_common:s_real_loop", dict(shape=sh, oracle="c05", opts={"phase": ph}), name="RL/mux-input-inactive@" + ph,
                            uf=True, cover=["solved"], weight=20))
    from ..shapes import variants as _variants
    for sid, shape in _variants().items():
        if sid not in ('by-rail/mux', 'hole/mux', 'reuse/mux-deep-input', 'reuse/mux-deep-input-2nd'):
            continue
        out.append(Instance("C05", "sys_common:s_run", dict(shape=shape, oracle="c05"), name="S/var/" + sid, uf=True, cover=["solved"], weight=20))
    if tier == "thorough":
        for sid, sh in shapes.enumerate_mux().items():
            out.append(Instance("C05", "sys_common:s_run", dict(shape=sh, oracle="c05"), name="S/enum/" + sid, uf=True, cover=["solved"],
                                weight=15, max_paths=8000, time_limit=3000))
    return out, META
