"""C17 -- analyses are read-only; batt_life restores the battery even on failure."""
import os
import tempfile

from ..core import Instance
from ..ops import Eq, And, Or, Not, Implies, cond, TRUE
from .. import spec, sysh, shapes, snap
from ..shapes import S, N
from ..envstubs import memory_files
from .c18 import Battery, Boom, Interrupt, SolverBoom, run_batt, PROBES


def e_restore(ctx, shape, K, raise_at=None, solver_fail_at=None, abort=False):
    """After batt_life returns OR raises (callback failure at the k-th call, solver failure at the k-th solve) the
    battery's voltage and resistance are the original ones and nothing else changed."""
    sysobj, info, durations = sysh.build_system(ctx, shape)
    battery = shape["nodes"][0]["name"]
    src = info[battery]["comp"]
    vo0, rs0 = src._params["vo"], src._params["rs"]
    before = snap.snapshot(sysobj)
    cutoff = ctx.real("cutoff")
    ctx.assume(cutoff >= 0)
    for nd in shape["nodes"]:  # capacity eventually runs out: positive load currents (as C18)
        if nd["kind"] == "ILoad":
            P = info[nd["name"]]["P"]
            ctx.assume(P["ii"] > 0)
            if "iis" in P and hasattr(P["iis"], "t"):
                ctx.assume(P["iis"] > 0)
            for v in (info[nd["name"]]["conf"] or {}).values():
                ctx.assume(v > 0)
    imax = None
    if len(shape["nodes"]) == 2:
        from ..ops import Max

        imax = 0.0
        for ph in (list(durations) or [""]):
            imax = Max(imax, sysh.load_val(info, shape["nodes"][1]["name"], ph))
    batt = Battery(ctx, K, raise_at=raise_at, rs_zero=len(shape["nodes"]) > 2, imax=imax, cutoff=cutoff,
                   exc=Interrupt if abort else Boom)
    outcome = "returned"
    try:
        run_batt(ctx, sysobj, shape, battery, batt, cutoff, solver_fail_at=solver_fail_at)
    except Boom:
        outcome = "callback-raised"
    except Interrupt:  # "raises" includes aborts that are not Exceptions (KeyboardInterrupt, SystemExit)
        outcome = "callback-aborted"
    except SolverBoom:
        outcome = "solver-raised"
    ctx.cover(outcome)
    inf = {"outcome": outcome, "deplete_calls": len(batt.args)}
    ctx.check("battery-voltage-restored", snap.same_leaf(src._params["vo"], vo0), key="batt-restore/%s" % outcome, info=inf)
    ctx.check("battery-resistance-restored", snap.same_leaf(src._params["rs"], rs0), key="batt-restore/%s" % outcome, info=inf)
    snap.compare(ctx, before, snap.snapshot(sysobj), "system-unchanged-by-batt_life", key="batt-unchanged/%s" % outcome, info=inf)


ANALYSES = ["solve", "rail_rep", "params", "limits", "phases", "tree", "save", "batt_life", "solve_phase", "solve_energy"]


def _run(ctx, sysobj, shape, what, tags):
    W = "bounded"  # the real warning code runs (limits are compared for real; quantities stay inside the default ranges)
    if what == "solve":
        return snap.frame_by_name(sysh.run_solve(ctx, sysobj, shape, tags=tags, stub_warns=W))
    if what == "solve_energy":
        return snap.frame_by_name(sysh.run_solve(ctx, sysobj, shape, energy=True, stub_warns=W))
    if what.startswith("solve_phase:"):
        return snap.frame_by_name(sysh.run_solve(ctx, sysobj, shape, phase=what.split(":")[1], stub_warns=W))
    if what == "solve_phase":
        ph = shape.get("phases")
        return snap.frame_by_name(sysh.run_solve(ctx, sysobj, shape, phase=ph[-1], stub_warns=W)) if ph else None
    if what == "rail_rep":
        return snap.frame_cells(sysh.run_solve(ctx, sysobj, shape, method="rail_rep", stub_warns=W))
    if what == "params":
        return snap.frame_by_name(sysobj.params(limits=True))
    if what == "limits":
        return snap.frame_by_name(sysobj.limits())
    if what == "phases":
        return snap.frame_by_name(sysobj.phases())
    if what == "tree":
        import sysloss.system as Sm

        old = Sm.print
        Sm.print = lambda *a, **k: None
        try:
            sysobj.tree()
        finally:
            Sm.print = old
        return None
    if what == "save":
        with memory_files(ctx):
            if ctx.symbolic:
                sysobj.save("mem://ro.json")
            else:
                tmp = tempfile.NamedTemporaryFile(suffix=".json", delete=False)
                tmp.close()
                try:
                    sysobj.save(tmp.name)
                finally:
                    os.unlink(tmp.name)
        return None
    if what == "batt_life":
        k = [0]

        def pf():
            return (1.0, 4.0, 0.0)

        def df(t, i):
            k[0] += 1
            return (1.0 - 0.6 * k[0], 4.0, 0.0)

        battery = shape["nodes"][0]["name"]
        from .. import symx
        from ..core import Skip

        try:
            with sysh.Wrapped(ctx, sysobj, sysh.depth_of(shape), tag=lambda: "#b%d" % k[0]):
                sysobj.batt_life(battery, cutoff=1.0, pfunc=pf, dfunc=df)
        except symx.NonFinite:
            # without phases batt_life divides the capacity by the battery current: a path on which that current can be 0 has no
            # defined time step (outside C18's quantifier, hence no subject for the read-only claim either)
            raise Skip("battery current can be zero on this path")
        return None
    raise KeyError(what)


def e_readonly(ctx, shape, seq):
    """solve() before == solve() after any interleaving of analyses; the system and the objects passed in are unchanged."""
    sysobj, info, durations = sysh.build_system(ctx, shape)
    if "batt_life" in seq:  # a battery whose capacity runs out: positive load currents
        for nd in shape["nodes"]:
            if nd["kind"] == "ILoad":
                ctx.assume(info[nd["name"]]["P"]["ii"] > 0)
                for v in (info[nd["name"]]["conf"] or {}).values():
                    ctx.assume(v > 0)
    tags = {"run": 7}
    before = snap.snapshot(sysobj)
    try:
        first = _run(ctx, sysobj, shape, "solve", tags)
        results = {}
        for w in seq:
            r = _run(ctx, sysobj, shape, w, tags)
            if w in results and r is not None:
                snap.compare(ctx, results[w], r, "repeated-analysis-identical", info={"analysis": w})
            results[w] = r
            snap.compare(ctx, before, snap.snapshot(sysobj), "system-unchanged-by-analysis", key="mutated-by/%s" % w, info={"analysis": w})
        last = _run(ctx, sysobj, shape, "solve", tags)
    except sysh.Unstable:
        ctx.note("unstable")
        return
    ctx.cover("ran")
    snap.compare(ctx, first, last, "solve-identical-after-interleaving", info={"sequence": seq})
    ctx.check("tags-argument-unchanged", cond(tags == {"run": 7}))
    if durations:
        ctx.check("phases-dict-unchanged", cond(list(sysobj.get_sys_phases()) == list(durations)))


def e_hidden_state(ctx, shape, seq, final=None):
    """'Interleaving any of these calls changes no later result' against an ABSOLUTE oracle: after the sequence the final solve() must
    still obey every component's documented law and the neighbour equations (C01's system oracle, which is independent of the repo code).
    A before/after comparison cannot see state that lives outside the System object (class- or module-level caches keyed too coarsely):
    both solves would be poisoned alike.  The proxies are hashable (one bucket) for the duration, so a cache keyed on looked-up values
    compares its keys through the solver."""
    from .. import symx
    from .sys_common import oracle_c01

    sysobj, info, durations = sysh.build_system(ctx, shape)
    old = symx.SymReal.__hash__
    try:
        try:
            for w in seq:
                _run(ctx, sysobj, shape, w, {"run": 7})
            kw = {"phase": final} if final else {}
            df = sysh.run_solve(ctx, sysobj, shape, stub_warns="bounded", **kw)
        except sysh.Unstable:
            ctx.note("unstable")
            return
    finally:
        symx.SymReal.__hash__ = old
    ctx.cover("ran")
    oracle_c01(ctx, shape, info, sysh.table_rows(df), durations, {}, df, sysobj)


META = {
    "explanation": "(1) Real batt_life() with a nondeterministic battery model whose callbacks raise at the k-th call, and with an injected solver failure "
                   "at the k-th inner solve: on every path - returning or raising - the Source's vo/rs must be solver-equal to the original terms and the "
                   "whole system snapshot unchanged.  (2) Real solve/rail_rep/params/limits/phases/tree/save/batt_life interleaved in sequences of length "
                   "<= 3: system snapshot unchanged after every call, repeated analyses cell-wise identical, solve() before == after, caller's tags dict "
                   "unchanged.",
    "functions": ["system.System.batt_life", "system.System.solve/rail_rep/params/limits/phases/tree/save", "system.System._rel_update/_set_phase_lkup"],
    "bounds": "K = 2 (quick) / 4 (thorough) deplete calls, failure at every call index <= K, solver failure at every solve index <= K; analysis "
              "sequences: all pairs (quick) / all triples of distinct analyses (thorough) on 3 shapes",
    "outside": "plot_interp, make_diag, make_hdiag take concrete data only: for them the read-only claim is decided on ONE concrete system "
               "(tables, rails, groups, phases, limits) over all solver-chosen sequences of 2 (quick) / 3 (thorough) of the 13 analysis calls - an "
               "enumeration, not a symbolic result",
    "assumptions": ["floats as reals", "inner solves abstracted to exact fixed points (as C18)"],
}


def instances(tier):
    import itertools

    out = []
    K = 2 if tier == "quick" else 4
    for sid in ("src-iload", "conv-iload-phases"):
        sh = PROBES[sid]
        out.append(Instance("C17", "c17:e_restore", dict(shape=sh, K=K), name="R/%s/no-failure" % sid, uf=True, cover=["returned"], weight=10))
        for ra in ["probe"] + list(range(1, K + 1)):
            out.append(Instance("C17", "c17:e_restore", dict(shape=sh, K=K, raise_at=ra), name="R/%s/callback-raises@%s" % (sid, ra), uf=True,
                                cover=["callback-raised"], weight=10))
        for ra in (["probe", 1, K] if sid == "src-iload" else [1]):
            out.append(Instance("C17", "c17:e_restore", dict(shape=sh, K=K, raise_at=ra, abort=True), name="R/%s/callback-aborts@%s" % (sid, ra),
                                uf=True, cover=["callback-aborted"], weight=10))
        for sf in range(1, K + 1):
            out.append(Instance("C17", "c17:e_restore", dict(shape=sh, K=K, solver_fail_at=sf), name="R/%s/solver-fails@%d" % (sid, sf), uf=True,
                                cover=["solver-raised"], weight=10))
    ro_shapes = {
        "rails-phases": S(N("S", "Source", rail="VIN", only=()), N("C", "Converter", "S", rail="3V3", phases=["a"], only=("iis",)),
                          N("L", "ILoad", "C", phases=["a", "b"], only=()), N("L2", "PLoad", "S", phases=["a"], only=("pwrs",)),
                          N("L3", "RLoad", "S", phases=["b"], only=()), N("L4", "ILoad", "S", phases=["b"], only=("iis",)), phases=["a", "b"]),
        "two-src": S(N("S1", "Source", only=()), N("L1", "ILoad", "S1", only=()), N("S2", "Source", only=()), N("G", "LinReg", "S2", only=("vdrop",), limits={"vo": [-1.0, -20.0], "tp": [-40.0, 85.0]}),
                     N("L2", "ILoad", "G", only=(), limits={"vi": [-0.5, -30.0], "pi": [2.0e3, -1.0e-3]})),  # (a pair given larger magnitude first stays as given)
        "mux": S(N("S1", "Source", pol="nonneg", only=()), N("S2", "Source", only=()), N("M", "PMux", ["S1", "S2"], only=("rs",)), N("L", "ILoad", "M", only=())),
    }
    names = ["rail_rep", "params", "limits", "phases", "tree", "save", "batt_life", "solve_phase", "solve_energy", "solve"]
    for sid, sh in ro_shapes.items():
        seqs = [[a, b] for a, b in itertools.permutations(names, 2)] if tier == "thorough" else \
               [names[:5], names[5:], ["batt_life", "solve", "batt_life"], ["save", "params", "save"], ["solve_energy", "rail_rep", "solve_phase"]]
        for q in seqs:
            out.append(Instance("C17", "c17:e_readonly", dict(shape=sh, seq=q), name="RO/%s/%s" % (sid, "+".join(q)), uf=True, cover=["ran"], weight=5))
    return out, META


# ---------------------------------------------------------------------------------------------------
def h_all_analyses(ctx, n=2):
    """ALL eleven analyses of the statement - including plot_interp, make_diag, make_hdiag, which only take concrete data -
    on a concrete system (tables, rails, groups, phases, limits): the sequence of n analyses is a solver choice; the state
    snapshot must be unchanged after every call, solve() identical before/after, the caller's config dict untouched."""
    import copy
    import os
    import tempfile
    import warnings
    import matplotlib

    matplotlib.use("Agg")
    import matplotlib.pyplot as plt
    import sysloss.components as C
    import sysloss.system as Sm
    from sysloss.system import System
    from sysloss import diagram
    from .. import hist

    # everything in this harness is concrete: the components are built on the REAL scipy interpolator (the grid contract model copies its
    # table, scipy keeps the caller's array - a difference that matters for code that scales the table in place)
    import scipy.interpolate as _si

    _old_nd = C.LinearNDInterpolator
    C.LinearNDInterpolator = _si.LinearNDInterpolator
    try:
        buck = C.Converter("BUCK", vo=3.3, eff={"vi": [5.0, 9.0], "io": [0.01, 0.1, 0.5], "eff": [[0.7, 0.85, 0.9], [0.65, 0.8, 0.88]]},
                           iq=1e-4, iis=1e-6, rt=20.0)
    finally:
        C.LinearNDInterpolator = _old_nd
    s = System("ro", C.Source("BAT", vo=7.2, rs=0.1, limits={"io": [0.0, 2.0]}), rail="VBAT", group="power")
    s.add_comp("BAT", comp=buck, rail="3V3", group="power")
    s.add_comp("3V3", comp=C.LinReg("LDO", vo=1.8, vdrop=0.2, ig={"vi": [3.3], "io": [0.0, 0.1], "ig": [[1e-5, 1e-4]]}), group="digital")
    s.add_comp("LDO", comp=C.PLoad("MCU", pwr=0.05, pwrs=1e-4, rt=40.0, limits={"tp": [-40.0, 85.0]}), group="digital")
    s.add_comp("BUCK", comp=C.ILoad("RADIO", ii=0.1, iis=1e-5, loss=True))
    s.add_comp("VBAT", comp=C.VLoss("DIODE", vdrop=0.3))
    s.add_comp("DIODE", comp=C.RLoad("LED", rs=500.0))
    phases = {"sleep": 100.0, "run": 5.0}
    s.set_sys_phases(phases)
    s.set_comp_phases("BUCK", ["run"])
    mcu_conf = {"run": 0.06}
    s.set_comp_phases("MCU", mcu_conf)
    conf = diagram.get_conf()
    conf["node"]["Converter"] = {"fillcolor": "coral"}
    conf0 = copy.deepcopy(conf)
    tags = {"t": 1}
    tmpd = tempfile.mkdtemp()

    def batt():
        k = [0]
        return s.batt_life("BAT", cutoff=5.0, pfunc=lambda: (0.002, 7.2, 0.1), dfunc=lambda t, i: (0.002 - 0.0015 * (k.__setitem__(0, k[0] + 1) or k[0]), 7.0, 0.12))

    def quiet_tree():
        old = Sm.print
        Sm.print = lambda *a, **k: None
        try:
            s.tree()
        finally:
            Sm.print = old

    acts = {
        "solve": lambda: s.solve(tags=tags), "solve_phase": lambda: s.solve(phase="run", energy=True, ta=40.0), "rail_rep": lambda: s.rail_rep(),
        "params": lambda: s.params(limits=True), "limits": lambda: s.limits(), "phases": lambda: s.phases(), "tree": quiet_tree,
        "save": lambda: s.save(os.path.join(tmpd, "s.json")), "plot_interp": lambda: (s.plot_interp("BUCK"), s.plot_interp("LDO"), plt.close("all")),
        "plot_interp_3d": lambda: (s.plot_interp("BUCK", plot3d=True, inpdata=False), plt.close("all")),
        "make_diag": lambda: diagram.make_diag(s, config=conf), "make_hdiag": lambda: diagram.make_hdiag(s, config=conf, group=False),
        "batt_life": batt,
    }
    names = sorted(acts)
    seq = [names[ctx.choice("a%d" % k, len(names))] for k in range(n)]
    with warnings.catch_warnings():
        warnings.simplefilter("ignore")
        before = snap.snapshot(s)
        first = snap.frame_by_name(s.solve())
        for w in seq:
            acts[w]()
            snap.compare(ctx, before, snap.snapshot(s), "system-unchanged-by-analysis", key="mutated-by/%s" % w, info={"analysis": w, "sequence": seq})
        last = snap.frame_by_name(s.solve())
    ctx.cover("ran")
    snap.compare(ctx, first, last, "solve-identical-after-interleaving", info={"sequence": seq})
    ctx.check("caller-objects-unchanged", cond(conf == conf0 and tags == {"t": 1} and phases == {"sleep": 100.0, "run": 5.0} and mcu_conf == {"run": 0.06}),
              info={"sequence": seq})
    import shutil

    shutil.rmtree(tmpd, ignore_errors=True)


_old_instances17 = instances


def instances(tier):
    out, meta = _old_instances17(tier)
    # interleavings against an ABSOLUTE oracle (the law / neighbour equations of C01 on the final table): state kept outside the
    # System - in component objects, interpolators, class or module level - poisons a before/after comparison on both sides alike
    from ..shapes import S, N
    hs = {
        "phased-chain": (S(N("S", "Source", only=("rs",)), N("C", "Converter", "S", phases=["a"], only=("iis", "iq")), N("G", "LinReg", "C", only=("vdrop", "ig")),
                           N("L", "ILoad", "G", phases=["a", "b"], only=("iis",)), N("L2", "PLoad", "S", phases=["b"], only=("pwrs",)), phases=["a", "b"]),
                         [(["solve_phase:a"], "b"), (["solve_phase:b", "rail_rep"], "a"), (["solve_energy", "save"], None)]),
        "tables": (S(N("S", "Source", only=()), N("W", "PSwitch", "S", form="t1x2", only=("rs",)), N("V", "VLoss", "W", form="t1x2"),
                     N("L", "ILoad", "V", phases=["a", "b"], only=()), phases=["a", "b"]),
                   [(["solve_phase:a"], "b"), (["solve", "batt_life"], None)]),
        "mux": (S(N("S1", "Source", pol="nonneg", only=(), phases=["a"]), N("S2", "Source", only=()), N("M", "PMux", ["S1", "S2"], rs_list=True, only=("rs",)),
                  N("L", "PLoad", "M", only=()), phases=["a", "b"]),
                [(["solve_phase:a"], "b"), (["solve_phase:b", "params"], "a")]),
    }
    for sid, (sh, runs) in hs.items():
        for seq, final in (runs if tier == "thorough" else runs[:2]):
            out.append(Instance("C17", "c17:e_hidden_state", dict(shape=sh, seq=seq, final=final),
                                name="HS/%s/%s->%s" % (sid, "+".join(seq), final or "all"), uf=True, cover=["ran"], weight=20, max_paths=4000))
    out.append(Instance("C17", "c17:h_all_analyses", dict(n=2 if tier == "quick" else 3), name="ALL/sequences-of-%d" % (2 if tier == "quick" else 3),
                        cover=["ran"], weight=50, max_paths=5000, time_limit=3000))
    return out, meta
