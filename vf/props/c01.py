"""C01 -- the solved table obeys every component's documented electrical law."""
from ..core import Instance
from ..ops import Eq, And, Or, Not, Implies, Iff, IsZero, Gt, Ge, Lt, Le, Abs, cond, TRUE
from .. import spec
from ..build import build, params, construct, TABLE_KEY

PHASE_MODES = ("none", "listed", "unlisted")


def phase_args(ctx, kind, P, phase_mode):
    """-> (phase, phase_conf, active, load value)"""
    if kind in spec.LOADS:
        if phase_mode == "none":
            return "", {}, True, spec.load_value(kind, P, "none")
        val = ctx.real("phase_val")
        if kind == "RLoad":
            ctx.assume(val > 0)
        if kind == "PLoad":
            ctx.assume(val >= 0)
        conf = {"p": val} if phase_mode == "listed" else {"q": val}
        return "p", conf, True, spec.load_value(kind, P, phase_mode, val)
    if phase_mode == "none" or kind not in spec.PHASED_LIST:
        return ("" if phase_mode == "none" else "p"), ({} if kind in ("Source",) or kind not in spec.PHASED_LIST else []), True, None
    conf = ["p"] if phase_mode == "listed" else ["q"]
    return "p", conf, phase_mode == "listed", None


def u_law(ctx, kind, form="const", phase="none", off="absent", warm=False):
    """One component, real constructor, real _solv_outp_volt / _solv_inp_curr on symbolic (vi, io).
    ``warm``: the same object has been evaluated before at ANOTHER operating point (what every solver sweep, phase and later solve()
    does) - whatever that left behind in the object, its interpolator or the module must not show in the evaluation checked here."""
    P = params(ctx, kind, "X", form)
    try:
        comp = construct(kind, "X", P)
    except ValueError:
        ctx.note("constructor-rejected")
        ctx.check("rejected-only-if-invalid", Not(spec.valid(kind, P)))
        return
    vi, io = ctx.real("vi"), ctx.real("io")
    ctx.assume(io >= 0)
    ph, conf, active, lval = phase_args(ctx, kind, P, phase)
    pstate = {} if off == "absent" else {"off": [off == "true"]}
    if warm:
        vi0, io0 = ctx.real("vi_before"), ctx.real("io_before")
        ctx.assume(io0 >= 0)
        try:
            vo0, _ = comp._solv_outp_volt([vi0], 0.0, io0, ph, conf, dict(pstate))
            ii0 = comp._solv_inp_curr([vi0], vo0, io0, ph, conf, dict(pstate))
            comp._solv_pwr_loss(vi0, vo0, ii0, io0, 25.0, ph, conf)
        except ValueError as e:
            if "Unstable system" not in str(e):
                raise
        ctx.cover("warmed")
    is_off = off == "true"
    if kind == "Converter":
        ctx.assume(Not(IsZero(P["vo"])))  # regulated outputs non-zero (quantifier)
    pol = spec.keeps_polarity(kind, P, vi, io)
    # ---- output voltage
    try:
        vo_, st = comp._solv_outp_volt([vi], 0.0, io, ph, conf, pstate)
    except ValueError as e:
        if "Unstable system" not in str(e):
            raise
        ctx.cover("unstable-raised")
        ctx.check("unstable-only-when-polarity-lost", Not(pol))
        vo_ = None
    if vo_ is not None:
        ref = spec.vout(kind, P, vi, io, active=active, off=is_off)
        dead = spec.dead_in(vi, is_off) if kind != "Source" else Or(IsZero(P["vo"]), cond(is_off), cond(not active))
        if kind == "Source":
            ctx.check("vout-law", Implies(Ge(P["vo"], 0.0), Eq(vo_, ref)))
            ctx.check("vout-law-negative-source", Implies(Lt(P["vo"], 0.0), Eq(vo_, ref)),
                      key="source-negative-vo-series-drop")
        elif kind == "RectM":
            # an overloaded MOSFET bridge (2*rs*io > |vi|) has no physical operating point: C03
            ctx.check("vout-law", Implies(pol, Eq(vo_, ref)))
        elif kind in ("RLoss", "VLoss", "RectD"):
            ctx.check("vout-law", Eq(vo_, ref))  # returned only when polarity kept
            ctx.check("returned-implies-polarity", Or(dead, pol))
        else:
            ctx.check("vout-law", Eq(vo_, ref))
        if kind not in spec.LOADS:
            exp_off = Or(dead, cond(not active)) if kind in spec.PHASED_LIST else dead
            ctx.check("off-flag", Iff(cond(bool(st["off"][0])), exp_off))
        ctx.cover("vout-evaluated")
    # ---- input current
    ii_ = comp._solv_inp_curr([vi], vo_ if vo_ is not None else 0.0, io, ph, conf, pstate)
    ref_i = spec.iin(kind, P, vi, io, active=active, off=is_off, lval=lval)
    ctx.check("iin-law", Eq(ii_, ref_i))
    ctx.check("iin-nonnegative", Ge(ii_, 0.0))
    ctx.cover("iin-evaluated")


def u_mux(ctx, k=2, form="const", phase="none", rs_list=True, offs="00"):
    """PMux with k inputs: priority selection, per-input resistance, current law."""
    P = params(ctx, "PMux", "M", form, nmux=k, rs_list=rs_list)
    try:
        comp = construct("PMux", "M", P)
    except ValueError:
        ctx.note("constructor-rejected")
        ctx.check("rejected-only-if-invalid", Not(spec.valid("PMux", P)))
        return
    vi = [ctx.real("vi%d" % i) for i in range(k)]
    io = ctx.real("io")
    ctx.assume(io >= 0)
    off = [c == "1" for c in offs]
    pstate = {"off": off}
    ph, conf, active, _ = phase_args(ctx, "PMux", P, phase)
    # spec: first input that is not off and not at 0 V
    sel_conds = []
    none_before = TRUE
    for i in range(k):
        live_i = And(cond(not off[i]), Not(IsZero(vi[i])))
        sel_conds.append(And(none_before, live_i))
        none_before = And(none_before, Not(live_i))
    pinp = comp._get_pri_inp(pstate, vi)
    for i in range(k):
        ctx.check("priority-input", Iff(cond(pinp == i), sel_conds[i]))
    ctx.check("priority-none", Iff(cond(pinp == -1), none_before))
    vo_, st = comp._solv_outp_volt(vi, 0.0, io, ph, conf, pstate)
    ii_ = comp._solv_inp_curr(vi, 0.0, io, ph, conf, pstate)
    if pinp == -1:
        ctx.cover("no-live-input")
        ctx.check("dead-vout", IsZero(vo_))
        ctx.check("dead-iin", IsZero(ii_))
        ctx.check("dead-off-flag", cond(bool(st["off"][0])))
        return
    ctx.cover("selected-%d" % pinp)
    rs = P["rs"][pinp] if isinstance(P["rs"], list) else P["rs"]
    ref = spec.vout("PMux", P, vi[pinp], io, active=active, off=False, rs_sel=rs)
    ctx.check("vout-law", Eq(vo_, ref), key="pmux-vout-law")
    ctx.check("iin-law", Eq(ii_, spec.iin("PMux", P, vi[pinp], io, active=active, off=False)))
    ctx.check("off-flag", Iff(cond(bool(st["off"][0])), cond(not active)))


FUNCS = ["components.*.__init__", "components.*._solv_outp_volt", "components.*._solv_inp_curr",
         "components._calc_inp_current", "components._get_lopt", "components._Interp0d/_Interp1d/_Interp2d._interp",
         "components.PMux._get_pri_inp", "components._check_interp", "components._check_limits"]

META = {
    "explanation": "Bounded symbolic execution of the real component laws (and, at system level, of one real solver "
                   "sweep from an arbitrary iterate) on z3 real proxies; each row/law equation against an independently "
                   "written reference model is a solver query whose negation must be unsat on every feasible path.",
    "functions": FUNCS,
    "bounds": "unit level: all real parameter values, vi any sign, io >= 0; parameter forms const, 1-D table (<=3 points), "
              "2-D table (2x2); PMux k<=3 inputs. System level: see instance list (tree shapes <= 5 nodes).",
    "outside": "binary64 rounding; larger trees/tables; vi rows of 2-D tables not in increasing order",
    "assumptions": ["floats modelled as reals", "io >= 0", "table axes strictly increasing, io axis >= 0, vi rows > 0",
                    "Converter vo != 0 (regulated outputs non-zero, as in the quantifier)"],
}


def instances(tier):
    out = []
    for kind in spec.KINDS:
        if kind == "PMux":
            continue
        forms = ["const"]
        if kind in TABLE_KEY:
            forms += ["t1x2", "ct2x2x2"] if tier == "quick" else ["t1x1", "t1x2", "t1x3", "ct2x2x2", "ct2x3x2"]
        for form in forms:
            phases = PHASE_MODES if (kind in spec.PHASED_LIST or kind in spec.LOADS) else ("none",)
            for ph in phases:
                offs = ("absent", "true") if (form != "const" or tier == "quick" and ph != "none") else ("absent", "false", "true")
                for off in offs:
                    cov = ["iin-evaluated"]
                    out.append(Instance("C01", "c01:u_law", dict(kind=kind, form=form, phase=ph, off=off), cover=cov,
                                        weight=5 if "t2" in form else 1, uf=form.startswith("t2")))
        # the same object evaluated before at another operating point (state kept in the object / interpolator must not leak)
        for form in forms:
            # (exact 2-D tables: the clamping cascade squares the paths - Converter / VLoss / diode bridge exceed 15 min and are left to C10 u_repeat)
            if form in ("const", "t1x2") or (form == "ct2x2x2" and kind in ("PSwitch", "LinReg")):
                out.append(Instance("C01", "c01:u_law", dict(kind=kind, form=form, phase="none", off="absent", warm=True), cover=["iin-evaluated", "warmed"],
                                    weight=8 if "t2" in form else 2))
    for k in (1, 2, 3):
        for offs in (["0" * k, "1" + "0" * (k - 1)] if tier == "quick" else
                     [format(b, "0%db" % k) for b in range(2 ** k)]):
            for rs_list in (True, False):
                for ph in ("none", "unlisted") if rs_list else ("none",):
                    out.append(Instance("C01", "c01:u_mux", dict(k=k, form="const", phase=ph, rs_list=rs_list, offs=offs)))
    # tabulated mux ground current: the lookup must use the SELECTED input's voltage (2-D / opaque tables depend on it)
    for form in ("t1x2", "ct2x2x2", "opaque"):
        for offs in ("00", "10"):
            out.append(Instance("C01", "c01:u_mux", dict(k=2, form=form, phase="none", rs_list=True, offs=offs), weight=5))
    from ..shapes import curated, pair_cover
    for sid, shape in curated().items():
        out.append(Instance("C01", "sys_common:s_run", dict(shape=shape, oracle="c01"), name="S/" + sid, uf=True,
                            cover=["solved"], weight=20, max_paths=3000))
    from ..shapes import mux_shapes
    for sid in ("mux-lowprio-sibling", "mux-deep-input-a"):
        out.append(Instance("C01", "sys_common:s_run", dict(shape=mux_shapes()[sid], oracle="c01"), name="S/" + sid, uf=True,
                            cover=["solved"], weight=20, max_paths=3000))
    from ..shapes import real_loop_shapes
    for sid, shape in real_loop_shapes().items():
        out.append(Instance("C01", "sys_common:s_real_loop", dict(shape=shape, oracle="c01"), name="RL/" + sid, uf=True, cover=["solved"], weight=20))
    from ..shapes import variants as _variants
    for sid, shape in _variants().items():
        out.append(Instance("C01", "sys_common:s_run", dict(shape=shape, oracle="c01"), name="S/var/" + sid, uf=True, cover=["solved"], weight=20))
    from . import xval
    out += xval.instances("C01", tier)
    if tier == "thorough":
        from ..shapes import enumerate_trees
        for sid, shape in enumerate_trees(4).items():
            out.append(Instance("C01", "sys_common:s_run", dict(shape=shape, oracle="c01"), name="S/enum4/" + sid, uf=True,
                                cover=["solved"], weight=8, max_paths=6000, time_limit=3000))
        for sid, shape in pair_cover().items():
            out.append(Instance("C01", "sys_common:s_run", dict(shape=shape, oracle="c01"), name="S/pair/" + sid, uf=True,
                                cover=["solved"], weight=15, max_paths=6000, time_limit=3000))
        for sid, shape in pair_cover(pol="neg", src_only=()).items():
            out.append(Instance("C01", "sys_common:s_run", dict(shape=shape, oracle="c01"), name="S/pair-neg/" + sid, uf=True,
                                cover=["solved"], weight=15, max_paths=6000, time_limit=3000))
    return out, META
