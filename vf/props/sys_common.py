"""The system-level harness shared by C01, C02, C04, C05, C06, C07, C08."""
from ..ops import (Eq, And, Or, Not, Implies, Iff, IsZero, Gt, Ge, Lt, Le, Abs, cond, Ite, Sum, TRUE, FALSE, Div)
from .. import spec, sysh


def s_run(ctx, shape, oracle, opts=None):
    opts = dict(opts or {})
    sysobj, info, durations = sysh.build_system(ctx, shape, assume_nonneg=opts.get("nonneg", True), rt=opts.get("rt", "none"))
    shape = sysh.finish(sysobj, info, shape)
    kw = {}
    for k in ("energy", "phase"):
        if k in opts:
            kw[k] = opts[k]
    if opts.get("ta"):
        kw["ta"] = opts["_ta"] = ctx.real("ta")
    try:
        # earlier analyses of the SAME operating point (same iterate symbols) under other settings: whatever they leave behind - in
        # the System, in the component objects, in class- or module-level state - must not show in the result examined below
        for n_, pr in enumerate(opts.get("prior", ())):
            pkw = dict(pr)
            meth = pkw.pop("method", "solve")
            if pkw.get("ta") == "fresh":
                pkw["ta"] = ctx.real("ta_prior%d" % n_)
            sysh.run_solve(ctx, sysobj, shape, method=meth, **pkw)
        df = sysh.run_solve(ctx, sysobj, shape, **kw)
    except sysh.Unstable:
        ctx.note("unstable-raised")
        ctx.cover("unstable")
        return
    except RuntimeError as e:
        if "Steady-state" in str(e):
            ctx.note("no-steady-state")
            return
        raise
    rows = sysh.table_rows(df)
    ctx.cover("solved")
    ORACLES[oracle](ctx, shape, info, rows, durations, opts, df, sysobj)


def s_real_loop(ctx, shape, oracle, opts=None):
    """Feed-forward shapes only: the REAL solver loop from the REAL initial iterate (no arbitrary-iterate abstraction, so the
    level-by-level propagation of off-states and voltages is exercised as it really happens), then the same oracle."""
    opts = dict(opts or {})
    sysobj, info, durations = sysh.build_system(ctx, shape)
    shape = sysh.finish(sysobj, info, shape)
    import sysloss.components as C
    from .. import shims

    old_w = C._Component._solv_get_warns
    C._Component._solv_get_warns = lambda self_, *a, **k: ""
    if ctx.symbolic:
        # "converged" = exactly stationary (a feed-forward tree settles exactly); what the tolerance predicate admits for
        # tiny parameter values is C03's subject
        shims.ALLCLOSE_MODE[0], shims.ALLCLOSE_HOOK[0] = "exact", None
    kw = {"phase": opts["phase"]} if "phase" in opts else {}
    try:
        # voltages settle top-down, currents bottom-up, and a series resistance in the chain sends the settled current down
        # again as a voltage: a few passes of the depth; the bound only has to be finite
        df = sysobj.solve(maxiter=4 * sysh.depth_of(shape) + 8, **kw)
    except RuntimeError as e:
        if "Steady-state" in str(e):
            # e.g. a series drop that equals its input exactly makes the loop oscillate between 0 V and the live value;
            # liveness is C03's subject - here only what IS returned is examined
            ctx.note("no-steady-state-within-bound")
            return
        raise
    except ValueError as e:
        if "Unstable" in str(e):
            ctx.note("unstable")
            return
        raise
    finally:
        C._Component._solv_get_warns = old_w
        if ctx.symbolic:
            shims.ALLCLOSE_MODE[0] = "exact"
    ctx.cover("solved")
    ORACLES[oracle](ctx, shape, info, sysh.table_rows(df), durations, opts, df, sysobj)


def sel_terms(info, name, rows):
    """Selected-input terms of a mux row: (vin term, rs term, parent index conds, none cond)."""
    P = info[name]["P"]
    ps = info[name]["parents"]
    sel, none = sysh.mux_selected(info, name, rows)
    vin, rs = 0.0, (Abs(P.get("rs", 0.0)) if not isinstance(P.get("rs", 0.0), list) else 0.0)
    for k in reversed(range(len(ps))):
        vin = Ite(sel[k], rows[ps[k]]["vout"], vin)
        if isinstance(P.get("rs"), list):
            rs = Ite(sel[k], Abs(P["rs"][k]), rs)
    return vin, rs, sel, none


def child_current(info, shape, name, rows):
    terms = []
    for c in sysh.children_of(shape, name):
        if info[c]["kind"] == "PMux" and len(info[c]["parents"]) > 1:
            sel, _ = sysh.mux_selected(info, c, rows)
            terms.append(Ite(sel[info[c]["parents"].index(name)], rows[c]["iin"], 0.0))
        else:
            terms.append(rows[c]["iin"])
    return Sum(terms) if terms else 0.0


def oracle_c01(ctx, shape, info, rows_by_phase, durations, opts, df, sysobj):
    for ph, rows in rows_by_phase.items():
        if ph not in (list(durations) if durations else [""]):
            continue  # the "System average" row
        for nd in shape["nodes"]:
            name, kind = nd["name"], nd["kind"]
            r, P = rows[name], info[name]["P"]
            active = sysh.is_active(info, name, ph)
            tag = "" if not ph else "@" + ph
            # --- neighbours
            ctx.check("iout=sum-children-iin", Eq(r["iout"], child_current(info, shape, name, rows)),
                      info={"row": name, "phase": ph})
            rs_sel = None
            if kind == "Source":
                vin = None
            elif kind == "PMux":
                vin, rs_sel, sel, none = sel_terms(info, name, rows)
                ctx.check("vin=vout-of-selected-input", Eq(r["vin"], vin), info={"row": name, "phase": ph})
            else:
                vin = rows[info[name]["parents"][0]]["vout"]
                ctx.check("vin=vout-of-parent", Eq(r["vin"], vin), info={"row": name, "phase": ph})
            # --- own law on the reported (Vin, Iout)
            io = r["iout"]
            if kind == "Source":
                ref_v = spec.vout(kind, P, None, io, active=active)
                ctx.check("vout-law", Implies(Ge(P["vo"], 0.0), Eq(r["vout"], ref_v)), info={"row": name, "phase": ph})
                ctx.check("vout-law-negative-source", Implies(Lt(P["vo"], 0.0), Eq(r["vout"], ref_v)),
                          key="source-negative-vo-series-drop", info={"row": name, "phase": ph})
                ctx.check("iin-law", Eq(r["iin"], spec.iin(kind, P, None, io, active=active)), info={"row": name, "phase": ph})
                continue
            vi = r["vin"]
            ref_v = spec.vout(kind, P, vi, io, active=active, rs_sel=rs_sel)
            law = Eq(r["vout"], ref_v)
            if kind == "RectM":
                law = Implies(spec.keeps_polarity(kind, P, vi, io), law)
            ctx.check("vout-law", law, info={"row": name, "phase": ph, "kind": kind})
            lval = sysh.load_val(info, name, ph) if kind in spec.LOADS else None
            ctx.check("iin-law", Eq(r["iin"], spec.iin(kind, P, vi, io, active=active, lval=lval)),
                      info={"row": name, "phase": ph, "kind": kind})


def oracle_c02(ctx, shape, info, rows_by_phase, durations, opts, df, sysobj):
    ta = 25.0
    for ph, rows in rows_by_phase.items():
        if ph not in (list(durations) if durations else [""]):
            continue
        src_p, load_p, losses = [], [], []
        for nd in shape["nodes"]:
            name, kind = nd["name"], nd["kind"]
            r, P = rows[name], info[name]["P"]
            inf = {"row": name, "phase": ph, "kind": kind}
            p, l, e = r["pwr"], r["loss"], r["eff"]
            losses.append(l)
            if kind == "Source":
                src_p.append(p)
                pol = spec.keeps_polarity(kind, P, None, r["iout"])
                ctx.check("power-minus-loss=handed-on", Implies(And(pol, Ge(P["vo"], 0.0)), Eq(p - l, Abs(r["vout"]) * r["iout"])), info=inf)
                ctx.check("loss-range", Implies(pol, And(Ge(l, 0.0), Le(l, p))), info=inf)
                continue
            if kind in spec.LOADS:
                cons = Abs(r["vin"]) * r["iin"]
                if P["loss"]:
                    ctx.check("load-loss-is-consumption", And(Eq(l, cons), IsZero(p)), info=inf)
                else:
                    ctx.check("load-power-is-consumption", And(Eq(p, cons), IsZero(l)), info=inf)
                    load_p.append(p)
            else:
                rs_sel = None
                if kind == "PMux":
                    _, rs_sel, _, _ = sel_terms(info, name, rows)
                pol = spec.keeps_polarity(kind, P, r["vin"], r["iout"], rs_sel=rs_sel)
                ctx.check("power=vin*iin", Eq(p, Abs(r["vin"]) * r["iin"]), info=inf)
                ctx.check("power-minus-loss=handed-on", Implies(pol, Eq(p - l, Abs(r["vout"]) * r["iout"])), info=inf)
                ctx.check("loss-range", Implies(pol, And(Ge(l, 0.0), Le(l, p))), info=inf)
                ctx.check("efficiency", Implies(And(pol, Gt(p, 0.0)), And(Eq(e * p, 100.0 * (p - l)), Ge(e, 0.0), Le(e, 100.0))), info=inf)
            if "tr" in r and isinstance(r["tr"], str):
                # a phase in which no component has a positive rise carries no temperature columns (blank after concat)
                heat = p if (kind in spec.LOADS and not P["loss"]) else l
                ctx.check("blank-temp-only-when-no-rise", IsZero(Abs(P.get("rt", 0.0)) * heat), info=inf)
            elif "tr" in r:
                heat = p if (kind in spec.LOADS and not P["loss"]) else l
                ctx.check("temp-rise", Eq(r["tr"], Abs(P.get("rt", 0.0)) * heat), info=inf)
                ctx.check("peak-temp", Eq(r["tp"], (opts.get("_ta") if opts.get("_ta") is not None else ta) + r["tr"]), info=inf)
        tot = rows["System total"]
        ctx.check("total-power=sum-of-sources", Eq(tot["pwr"], Sum(src_p)), info={"phase": ph})
        ctx.check("total-loss=sum-of-losses", Eq(tot["loss"], Sum(losses)), info={"phase": ph})
        # system balance: telescoping over the tree; hypotheses are the per-row identities (each discharged above as its
        # own obligation) plus distributivity instances mul(a, b+c) = mul(a,b)+mul(a,c), which are valid in the reals
        hyps = []
        allpol = []
        for nd in shape["nodes"]:
            name, kind = nd["name"], nd["kind"]
            r, P = rows[name], info[name]["P"]
            if kind in spec.LOADS:
                continue
            rs_sel = None
            if kind == "PMux":
                _, rs_sel, _, _ = sel_terms(info, name, rows)
            allpol.append(spec.keeps_polarity(kind, P, r.get("vin"), r["iout"], rs_sel=rs_sel))
            if kind == "Source":
                allpol.append(Ge(P["vo"], 0.0))
            kids = sysh.children_of(shape, name)
            a = Abs(r["vout"])
            hyps.append(Eq(r["pwr"] - r["loss"], a * r["iout"]))
            terms = []
            for c in kids:
                rc = rows[c]
                if info[c]["kind"] == "PMux" and len(info[c]["parents"]) > 1:
                    sel, _ = sysh.mux_selected(info, c, rows)
                    k = info[c]["parents"].index(name)
                    cur = Ite(sel[k], rc["iin"], 0.0)
                else:
                    cur = rc["iin"]
                terms.append(a * cur)
                # what the child reports as consumed equals |Vout(parent)| * its share of the current
                consumed = rc["loss"] if (info[c]["kind"] in spec.LOADS and info[c]["P"]["loss"]) else rc["pwr"]
                if info[c]["kind"] == "PMux" and len(info[c]["parents"]) > 1:
                    pass
                else:
                    hyps.append(Eq(consumed, a * cur))
            hyps.append(Eq(a * child_current(info, shape, name, rows), Sum(terms)))
        for nd in shape["nodes"]:
            if nd["kind"] == "PMux" and len(info[nd["name"]]["parents"]) > 1:
                c = nd["name"]
                sel, none = sysh.mux_selected(info, c, rows)
                tot_in = Sum([Abs(rows[p]["vout"]) * Ite(sel[k], rows[c]["iin"], 0.0) for k, p in enumerate(info[c]["parents"])])
                hyps.append(Eq(rows[c]["pwr"], tot_in))
        for h in hyps:  # every hypothesis of the telescoping argument is itself an obligation
            ctx.check("balance-hypothesis", Implies(And(*allpol), h), info={"phase": ph})
        balance = Eq(Sum(src_p), Sum(load_p) + Sum(losses))
        ctx.check("system-balance", Implies(And(*allpol, *hyps), balance), info={"phase": ph})
        ctx.check("total-efficiency<=100", Implies(And(*allpol), Le(tot["eff"], 100.0)), info={"phase": ph})


# ---------------------------------------------------------------------------------------------------
def source_of(info, name):
    """Spec attribution for nodes that are not below a mux: the unique source ancestor (or None below a mux)."""
    n = name
    while True:
        ps = info[n]["parents"]
        if not ps:
            return n
        if len(ps) > 1:
            return None
        n = ps[0]


def domain_alts(info, name, rows):
    """Spec attribution: list of (Cond, source name).  Below a mux the source of the selected input."""
    n = name
    while True:
        ps = info[n]["parents"]
        if not ps:
            return [(TRUE, n)]
        if len(ps) > 1:
            sel, none = sysh.mux_selected(info, n, rows)
            alts = []
            for k, p in enumerate(ps):
                for c2, s in domain_alts(info, p, rows):
                    alts.append((And(sel[k], c2), s))
            return alts
        n = ps[0]


def cause_dead(info, shape, name, ph, memo=None):
    """Spec: 'the supply of <name> is at 0 V because of a dead rail' as a Cond over the *configuration*
    (0 V sources, phase-inactive sources / converters / regulators / switches / mux, mux without live input)."""
    def out_dead(n):
        kind, P = info[n]["kind"], info[n]["P"]
        inactive = not sysh.is_active(info, n, ph)
        if kind == "Source":
            return Or(IsZero(P["vo"]), cond(inactive))
        return Or(supply_dead(n), cond(inactive and kind in spec.PHASED_LIST))

    def supply_dead(n):
        ps = info[n]["parents"]
        return And(*[out_dead(p) for p in ps])

    return supply_dead(name) if info[name]["parents"] else out_dead(name)


def oracle_c04(ctx, shape, info, rows_by_phase, durations, opts, df, sysobj):
    for ph, rows in rows_by_phase.items():
        if ph not in (list(durations) if durations else [""]):
            continue
        for nd in shape["nodes"]:
            name, kind = nd["name"], nd["kind"]
            r, P = rows[name], info[name]["P"]
            inf = {"row": name, "phase": ph, "kind": kind}
            dead = cause_dead(info, shape, name, ph)
            if dead.concrete() and not dead.t:
                if kind == "Source" or not (kind in spec.PHASED_LIST and not sysh.is_active(info, name, ph)):
                    continue
            else:
                ctx.cover("dead-possible")
            quiet = And(IsZero(r["vout"]), IsZero(r["iin"]), IsZero(r["iout"]), IsZero(r["pwr"]), IsZero(r["loss"]))
            if kind != "Source":
                quiet = And(quiet, IsZero(r["vin"]))
            ctx.check("dead-supply=>quiescent", Implies(dead, quiet), info=inf)
            if kind in spec.PHASED_LIST and kind != "Source" and not sysh.is_active(info, name, ph):
                ctx.cover("inactive-element")
                iis = Abs(P.get("iis", 0.0))
                live = And(Not(dead), Not(IsZero(r["vin"])))
                ctx.check("inactive-draws-sleep-current", Implies(live, And(Eq(r["iin"], iis), IsZero(r["vout"]))), info=inf)
                ctx.check("inactive-dissipates-sleep-power", Implies(live, And(Eq(r["pwr"], Abs(r["vin"]) * iis),
                                                                          Eq(r["loss"], Abs(r["vin"]) * iis))), info=inf)
            # consequence at every depth: a row whose reported input voltage is 0 V is quiescent
            if kind != "Source":
                ctx.check("zero-vin=>quiescent", Implies(IsZero(r["vin"]), And(IsZero(r["vout"]), IsZero(r["iin"]), IsZero(r["iout"]),
                                                                               IsZero(r["pwr"]), IsZero(r["loss"]))), info=inf)


def oracle_c05(ctx, shape, info, rows_by_phase, durations, opts, df, sysobj):
    oracle_c01(ctx, shape, info, rows_by_phase, durations, opts, df, sysobj)
    for ph, rows in rows_by_phase.items():
        if ph not in (list(durations) if durations else [""]):
            continue
        for nd in shape["nodes"]:
            name, kind = nd["name"], nd["kind"]
            if kind != "PMux":
                continue
            r, P, ps = rows[name], info[name]["P"], info[name]["parents"]
            sel, none = sysh.mux_selected(info, name, rows)
            inf = {"row": name, "phase": ph}
            pcell = r.get("parent", r.get("rail_in"))
            for k, p in enumerate(ps):
                want = p if "parent" in r else (info[p]["nd"].get("rail") or "")
                ctx.check("reported-parent-is-selected-input", Implies(sel[k], cond(pcell == want)), info=inf)
                ctx.check("vin-is-selected-input-voltage", Implies(sel[k], Eq(r["vin"], rows[p]["vout"])), info=inf)
                # no other input sees any current from the mux
                other = child_current(info, shape, p, rows)
                mine = Sum([rows[c]["iin"] for c in sysh.children_of(shape, p) if c != name])
                ctx.check("unselected-input-sees-no-mux-current", Implies(Not(sel[k]), Eq(rows[p]["iout"], mine)), info=inf)
                ctx.check("selected-input-carries-mux-current", Implies(sel[k], Eq(rows[p]["iout"], mine + r["iin"])), info=inf)
                if "domain" in r:
                    for c2, s in domain_alts(info, p, rows):
                        ctx.check("domain-is-source-of-selected-input", Implies(And(sel[k], c2), cond(r["domain"] == s)), info=inf)
            quiet = And(IsZero(r["vout"]), IsZero(r["iin"]), IsZero(r["iout"]), IsZero(r["pwr"]), IsZero(r["loss"]))
            ctx.check("no-live-input=>mux-dead", Implies(none, quiet), info=inf)
            for c in sysh.children_of(shape, name):
                rc = rows[c]
                ctx.check("no-live-input=>subtree-dead", Implies(none, And(IsZero(rc["vin"]), IsZero(rc["vout"]), IsZero(rc["iin"]),
                                                                           IsZero(rc["pwr"]), IsZero(rc["loss"]))), info={"row": c, "phase": ph})
            if not none.concrete() or none.t:
                ctx.cover("none-live-possible")


def oracle_c07(ctx, shape, info, rows_by_phase, durations, opts, df, sysobj):
    sources = [n["name"] for n in shape["nodes"] if n["kind"] == "Source"]
    multi = len(sources) > 1
    phase_tot = {}
    for ph, rows in rows_by_phase.items():
        if ph not in (list(durations) if durations else [""]):
            continue
        loss_by_src = {s: [] for s in sources}
        all_loss, src_p = [], []
        # efficiency cells are only meaningful for states in which no source / series element is overloaded
        pol = []
        for nd in shape["nodes"]:
            if nd["kind"] in spec.LOADS:
                continue
            rs_sel = sel_terms(info, nd["name"], rows)[1] if nd["kind"] == "PMux" else None
            pol.append(spec.keeps_polarity(nd["kind"], info[nd["name"]]["P"], rows[nd["name"]].get("vin"), rows[nd["name"]]["iout"], rs_sel=rs_sel))
            if nd["kind"] == "Source":
                pol.append(Ge(info[nd["name"]]["P"]["vo"], 0.0))
        okp = And(*pol)
        for nd in shape["nodes"]:
            name, kind = nd["name"], nd["kind"]
            r = rows[name]
            inf = {"row": name, "phase": ph}
            alts = domain_alts(info, name, rows)
            if multi:
                for c, s in alts:
                    ctx.check("domain=powering-source", Implies(c, cond(r["domain"] == s)), info=inf)
            all_loss.append(r["loss"])
            if kind == "Source":
                src_p.append(r["pwr"])
            for s in sources:
                cs = [c for c, s2 in alts if s2 == s]
                if cs:
                    loss_by_src[s].append(Ite(Or(*cs), r["loss"], 0.0) if not (len(cs) == 1 and cs[0] is TRUE) else r["loss"])
            if opts.get("energy"):
                ctx.check("energy=power*share-of-24h", Eq(r["energy"], energy_ref(r["pwr"], ph, durations)), info=inf)
        if multi:
            for s in sources:
                sub = rows["Subsystem " + s]
                rs_ = rows[s]
                inf = {"row": "Subsystem " + s, "phase": ph}
                live = Not(IsZero(rs_["vout"]))
                ctx.check("subsystem-voltage=source-voltage", Implies(live, Eq(sub["vin"], info[s]["P"]["vo"])), info=inf)
                ctx.check("subsystem-current=source-iout", Eq(sub["iout"], rs_["iout"]), info=inf)
                ctx.check("subsystem-power=source-power", Eq(sub["pwr"], rs_["pwr"]), info=inf)
                ctx.check("subsystem-loss=sum-of-member-losses", Eq(sub["loss"], Sum(loss_by_src[s])), info=inf)
                ctx.check("subsystem-efficiency", Implies(And(okp, Gt(sub["pwr"], 0.0), Le(sub["loss"], sub["pwr"])), And(Eq(sub["eff"] * sub["pwr"], 100.0 * (sub["pwr"] - sub["loss"])), Le(sub["eff"], 100.0))), info=inf)
                if opts.get("energy"):
                    ctx.check("energy=power*share-of-24h", Eq(sub["energy"], energy_ref(sub["pwr"], ph, durations)), info=inf)
        tot = rows["System total"]
        inf = {"row": "System total", "phase": ph}
        ctx.check("total-power=sum-of-sources", Eq(tot["pwr"], Sum(src_p)), info=inf)
        ctx.check("total-loss=sum-of-losses", Eq(tot["loss"], Sum(all_loss)), info=inf)
        ctx.check("total-efficiency", Implies(And(okp, Gt(tot["pwr"], 0.0), Le(tot["loss"], tot["pwr"])), And(Eq(tot["eff"] * tot["pwr"], 100.0 * (tot["pwr"] - tot["loss"])), Le(tot["eff"], 100.0))), info=inf)
        if opts.get("energy"):
            ctx.check("energy=power*share-of-24h", Eq(tot["energy"], energy_ref(tot["pwr"], ph, durations)), info=inf)
        phase_tot[ph] = tot
    if len(durations) > 1 and "phase" not in opts:
        avg = None
        for ph, rows in rows_by_phase.items():
            if "System average" in rows:
                avg = rows["System average"]
        if avg is None:
            ctx.fail("system-average-row-present")
            return
        ctx.cover("average")
        ttot = Sum(list(durations.values()))
        for key, lab in (("pwr", "average-power"), ("loss", "average-loss"), ("eff", "average-efficiency")):
            ref = Sum([phase_tot[p][key] * durations[p] for p in durations])
            if isinstance(avg.get(key), str):
                ctx.fail(lab + "=duration-weighted-mean", info={"row": "System average", "cell": avg.get(key)})
                continue
            ctx.check(lab + "=duration-weighted-mean", Eq(avg[key] * ttot, ref), info={"row": "System average"})
        if opts.get("energy") and not isinstance(avg.get("energy"), str) and not isinstance(avg.get("pwr"), str):
            ctx.check("average-energy=power*24", Eq(avg["energy"], avg["pwr"] * 24.0), info={"row": "System average"})
            ctx.check("phase-energies-add-up-to-average-energy",
                      Eq(Sum([phase_tot[p]["energy"] for p in durations]), avg["energy"]), info={"row": "System average"})


def energy_ref(pwr, ph, durations):
    if ph == "":
        return pwr * 24.0
    ttot = Sum(list(durations.values()))
    # power x the phase's share of 24 h
    return Div(pwr * 24.0 * durations[ph], ttot)


ORACLES = {"c01": oracle_c01, "c02": oracle_c02, "c04": oracle_c04, "c05": oracle_c05, "c07": oracle_c07}
