"""The system-level harness shared by C01, C02, C04, C05, C06, C07, C08."""
from ..ops import (Eq, And, Or, Not, Implies, Iff, IsZero, Gt, Ge, Lt, Le, Abs, cond, Ite, Sum, TRUE, FALSE)
from .. import spec, sysh


def s_run(ctx, shape, oracle, opts=None):
    opts = opts or {}
    sysobj, info, durations = sysh.build_system(ctx, shape, assume_nonneg=opts.get("nonneg", True))
    kw = {}
    for k in ("energy", "phase"):
        if k in opts:
            kw[k] = opts[k]
    if opts.get("ta"):
        kw["ta"] = ctx.real("ta")
    try:
        df = sysh.run_solve(ctx, sysobj, shape, **kw)
    except sysh.Unstable:
        ctx.note("unstable-raised")
        ctx.cover("unstable")
        return
    except RuntimeError as e:
        if "Steady-state" in str(e):
            ctx.note("no-steady-state")
            return
        raise
    rows = sysh.table_rows(df)
    ctx.cover("solved")
    ORACLES[oracle](ctx, shape, info, rows, durations, opts, df, sysobj)


def sel_terms(info, name, rows):
    """Selected-input terms of a mux row: (vin term, rs term, parent index conds, none cond)."""
    P = info[name]["P"]
    ps = info[name]["parents"]
    sel, none = sysh.mux_selected(info, name, rows)
    vin, rs = 0.0, (Abs(P["rs"]) if not isinstance(P.get("rs", 0.0), list) else 0.0)
    for k in reversed(range(len(ps))):
        vin = Ite(sel[k], rows[ps[k]]["vout"], vin)
        if isinstance(P.get("rs"), list):
            rs = Ite(sel[k], Abs(P["rs"][k]), rs)
    return vin, rs, sel, none


def child_current(info, shape, name, rows):
    terms = []
    for c in sysh.children_of(shape, name):
        if info[c]["kind"] == "PMux" and len(info[c]["parents"]) > 1:
            sel, _ = sysh.mux_selected(info, c, rows)
            terms.append(Ite(sel[info[c]["parents"].index(name)], rows[c]["iin"], 0.0))
        else:
            terms.append(rows[c]["iin"])
    return Sum(terms) if terms else 0.0


def oracle_c01(ctx, shape, info, rows_by_phase, durations, opts, df, sysobj):
    for ph, rows in rows_by_phase.items():
        if ph not in ([""] + list(durations)):
            continue  # the "System average" row
        for nd in shape["nodes"]:
            name, kind = nd["name"], nd["kind"]
            r, P = rows[name], info[name]["P"]
            active = sysh.is_active(info, name, ph)
            tag = "" if not ph else "@" + ph
            # --- neighbours
            ctx.check("iout=sum-children-iin", Eq(r["iout"], child_current(info, shape, name, rows)),
                      info={"row": name, "phase": ph})
            rs_sel = None
            if kind == "Source":
                vin = None
            elif kind == "PMux":
                vin, rs_sel, sel, none = sel_terms(info, name, rows)
                ctx.check("vin=vout-of-selected-input", Eq(r["vin"], vin), info={"row": name, "phase": ph})
            else:
                vin = rows[info[name]["parents"][0]]["vout"]
                ctx.check("vin=vout-of-parent", Eq(r["vin"], vin), info={"row": name, "phase": ph})
            # --- own law on the reported (Vin, Iout)
            io = r["iout"]
            if kind == "Source":
                ref_v = spec.vout(kind, P, None, io, active=active)
                ctx.check("vout-law", Implies(Ge(P["vo"], 0.0), Eq(r["vout"], ref_v)), info={"row": name, "phase": ph})
                ctx.check("vout-law-negative-source", Implies(Lt(P["vo"], 0.0), Eq(r["vout"], ref_v)),
                          key="source-negative-vo-series-drop", info={"row": name, "phase": ph})
                ctx.check("iin-law", Eq(r["iin"], spec.iin(kind, P, None, io, active=active)), info={"row": name, "phase": ph})
                continue
            vi = r["vin"]
            ref_v = spec.vout(kind, P, vi, io, active=active, rs_sel=rs_sel)
            law = Eq(r["vout"], ref_v)
            if kind == "RectM":
                law = Implies(spec.keeps_polarity(kind, P, vi, io), law)
            ctx.check("vout-law", law, info={"row": name, "phase": ph, "kind": kind})
            lval = sysh.load_val(info, name, ph) if kind in spec.LOADS else None
            ctx.check("iin-law", Eq(r["iin"], spec.iin(kind, P, vi, io, active=active, lval=lval)),
                      info={"row": name, "phase": ph, "kind": kind})


ORACLES = {"c01": oracle_c01}
