"""The system-level harness shared by C01, C02, C04, C05, C06, C07, C08."""
from ..ops import (Eq, And, Or, Not, Implies, Iff, IsZero, Gt, Ge, Lt, Le, Abs, cond, Ite, Sum, TRUE, FALSE)
from .. import spec, sysh


def s_run(ctx, shape, oracle, opts=None):
    opts = opts or {}
    sysobj, info, durations = sysh.build_system(ctx, shape, assume_nonneg=opts.get("nonneg", True))
    kw = {}
    for k in ("energy", "phase"):
        if k in opts:
            kw[k] = opts[k]
    if opts.get("ta"):
        kw["ta"] = ctx.real("ta")
    try:
        df = sysh.run_solve(ctx, sysobj, shape, **kw)
    except sysh.Unstable:
        ctx.note("unstable-raised")
        ctx.cover("unstable")
        return
    except RuntimeError as e:
        if "Steady-state" in str(e):
            ctx.note("no-steady-state")
            return
        raise
    rows = sysh.table_rows(df)
    ctx.cover("solved")
    ORACLES[oracle](ctx, shape, info, rows, durations, opts, df, sysobj)


def sel_terms(info, name, rows):
    """Selected-input terms of a mux row: (vin term, rs term, parent index conds, none cond)."""
    P = info[name]["P"]
    ps = info[name]["parents"]
    sel, none = sysh.mux_selected(info, name, rows)
    vin, rs = 0.0, (Abs(P["rs"]) if not isinstance(P.get("rs", 0.0), list) else 0.0)
    for k in reversed(range(len(ps))):
        vin = Ite(sel[k], rows[ps[k]]["vout"], vin)
        if isinstance(P.get("rs"), list):
            rs = Ite(sel[k], Abs(P["rs"][k]), rs)
    return vin, rs, sel, none


def child_current(info, shape, name, rows):
    terms = []
    for c in sysh.children_of(shape, name):
        if info[c]["kind"] == "PMux" and len(info[c]["parents"]) > 1:
            sel, _ = sysh.mux_selected(info, c, rows)
            terms.append(Ite(sel[info[c]["parents"].index(name)], rows[c]["iin"], 0.0))
        else:
            terms.append(rows[c]["iin"])
    return Sum(terms) if terms else 0.0


def oracle_c01(ctx, shape, info, rows_by_phase, durations, opts, df, sysobj):
    for ph, rows in rows_by_phase.items():
        if ph not in ([""] + list(durations)):
            continue  # the "System average" row
        for nd in shape["nodes"]:
            name, kind = nd["name"], nd["kind"]
            r, P = rows[name], info[name]["P"]
            active = sysh.is_active(info, name, ph)
            tag = "" if not ph else "@" + ph
            # --- neighbours
            ctx.check("iout=sum-children-iin", Eq(r["iout"], child_current(info, shape, name, rows)),
                      info={"row": name, "phase": ph})
            rs_sel = None
            if kind == "Source":
                vin = None
            elif kind == "PMux":
                vin, rs_sel, sel, none = sel_terms(info, name, rows)
                ctx.check("vin=vout-of-selected-input", Eq(r["vin"], vin), info={"row": name, "phase": ph})
            else:
                vin = rows[info[name]["parents"][0]]["vout"]
                ctx.check("vin=vout-of-parent", Eq(r["vin"], vin), info={"row": name, "phase": ph})
            # --- own law on the reported (Vin, Iout)
            io = r["iout"]
            if kind == "Source":
                ref_v = spec.vout(kind, P, None, io, active=active)
                ctx.check("vout-law", Implies(Ge(P["vo"], 0.0), Eq(r["vout"], ref_v)), info={"row": name, "phase": ph})
                ctx.check("vout-law-negative-source", Implies(Lt(P["vo"], 0.0), Eq(r["vout"], ref_v)),
                          key="source-negative-vo-series-drop", info={"row": name, "phase": ph})
                ctx.check("iin-law", Eq(r["iin"], spec.iin(kind, P, None, io, active=active)), info={"row": name, "phase": ph})
                continue
            vi = r["vin"]
            ref_v = spec.vout(kind, P, vi, io, active=active, rs_sel=rs_sel)
            law = Eq(r["vout"], ref_v)
            if kind == "RectM":
                law = Implies(spec.keeps_polarity(kind, P, vi, io), law)
            ctx.check("vout-law", law, info={"row": name, "phase": ph, "kind": kind})
            lval = sysh.load_val(info, name, ph) if kind in spec.LOADS else None
            ctx.check("iin-law", Eq(r["iin"], spec.iin(kind, P, vi, io, active=active, lval=lval)),
                      info={"row": name, "phase": ph, "kind": kind})


def oracle_c02(ctx, shape, info, rows_by_phase, durations, opts, df, sysobj):
    ta = 25.0
    for ph, rows in rows_by_phase.items():
        if ph not in ([""] + list(durations)):
            continue
        src_p, load_p, losses = [], [], []
        for nd in shape["nodes"]:
            name, kind = nd["name"], nd["kind"]
            r, P = rows[name], info[name]["P"]
            inf = {"row": name, "phase": ph, "kind": kind}
            p, l, e = r["pwr"], r["loss"], r["eff"]
            losses.append(l)
            if kind == "Source":
                src_p.append(p)
                pol = spec.keeps_polarity(kind, P, None, r["iout"])
                ctx.check("power-minus-loss=handed-on", Implies(And(pol, Ge(P["vo"], 0.0)), Eq(p - l, Abs(r["vout"]) * r["iout"])), info=inf)
                ctx.check("loss-range", Implies(pol, And(Ge(l, 0.0), Le(l, p))), info=inf)
                continue
            if kind in spec.LOADS:
                cons = Abs(r["vin"]) * r["iin"]
                if P["loss"]:
                    ctx.check("load-loss-is-consumption", And(Eq(l, cons), IsZero(p)), info=inf)
                else:
                    ctx.check("load-power-is-consumption", And(Eq(p, cons), IsZero(l)), info=inf)
                    load_p.append(p)
            else:
                rs_sel = None
                if kind == "PMux":
                    _, rs_sel, _, _ = sel_terms(info, name, rows)
                pol = spec.keeps_polarity(kind, P, r["vin"], r["iout"], rs_sel=rs_sel)
                ctx.check("power=vin*iin", Eq(p, Abs(r["vin"]) * r["iin"]), info=inf)
                ctx.check("power-minus-loss=handed-on", Implies(pol, Eq(p - l, Abs(r["vout"]) * r["iout"])), info=inf)
                ctx.check("loss-range", Implies(pol, And(Ge(l, 0.0), Le(l, p))), info=inf)
                ctx.check("efficiency", Implies(And(pol, Gt(p, 0.0)), And(Eq(e * p, 100.0 * (p - l)), Ge(e, 0.0), Le(e, 100.0))), info=inf)
            if "tr" in r:
                heat = p if (kind in spec.LOADS and not P["loss"]) else l
                ctx.check("temp-rise", Eq(r["tr"], Abs(P.get("rt", 0.0)) * heat), info=inf)
                ctx.check("peak-temp", Eq(r["tp"], (opts.get("_ta") if opts.get("_ta") is not None else ta) + r["tr"]), info=inf)
        tot = rows["System total"]
        ctx.check("total-power=sum-of-sources", Eq(tot["pwr"], Sum(src_p)), info={"phase": ph})
        ctx.check("total-loss=sum-of-losses", Eq(tot["loss"], Sum(losses)), info={"phase": ph})
        # system balance: telescoping over the tree; hypotheses are the per-row identities (each discharged above as its
        # own obligation) plus distributivity instances mul(a, b+c) = mul(a,b)+mul(a,c), which are valid in the reals
        hyps = []
        allpol = []
        for nd in shape["nodes"]:
            name, kind = nd["name"], nd["kind"]
            r, P = rows[name], info[name]["P"]
            if kind in spec.LOADS:
                continue
            rs_sel = None
            if kind == "PMux":
                _, rs_sel, _, _ = sel_terms(info, name, rows)
            allpol.append(spec.keeps_polarity(kind, P, r.get("vin"), r["iout"], rs_sel=rs_sel))
            if kind == "Source":
                allpol.append(Ge(P["vo"], 0.0))
            kids = sysh.children_of(shape, name)
            a = Abs(r["vout"])
            hyps.append(Eq(r["pwr"] - r["loss"], a * r["iout"]))
            terms = []
            for c in kids:
                rc = rows[c]
                if info[c]["kind"] == "PMux" and len(info[c]["parents"]) > 1:
                    sel, _ = sysh.mux_selected(info, c, rows)
                    k = info[c]["parents"].index(name)
                    cur = Ite(sel[k], rc["iin"], 0.0)
                else:
                    cur = rc["iin"]
                terms.append(a * cur)
                # what the child reports as consumed equals |Vout(parent)| * its share of the current
                consumed = rc["loss"] if (info[c]["kind"] in spec.LOADS and info[c]["P"]["loss"]) else rc["pwr"]
                if info[c]["kind"] == "PMux" and len(info[c]["parents"]) > 1:
                    pass
                else:
                    hyps.append(Eq(consumed, a * cur))
            hyps.append(Eq(a * child_current(info, shape, name, rows), Sum(terms)))
        for nd in shape["nodes"]:
            if nd["kind"] == "PMux" and len(info[nd["name"]]["parents"]) > 1:
                c = nd["name"]
                sel, none = sysh.mux_selected(info, c, rows)
                tot_in = Sum([Abs(rows[p]["vout"]) * Ite(sel[k], rows[c]["iin"], 0.0) for k, p in enumerate(info[c]["parents"])])
                hyps.append(Eq(rows[c]["pwr"], tot_in))
        for h in hyps:  # every hypothesis of the telescoping argument is itself an obligation
            ctx.check("balance-hypothesis", Implies(And(*allpol), h), info={"phase": ph})
        balance = Eq(Sum(src_p), Sum(load_p) + Sum(losses))
        ctx.check("system-balance", Implies(And(*allpol, *hyps), balance), info={"phase": ph})
        ctx.check("total-efficiency<=100", Implies(And(*allpol), Le(tot["eff"], 100.0)), info={"phase": ph})


ORACLES = {"c01": oracle_c01, "c02": oracle_c02}
