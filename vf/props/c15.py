"""C15 -- a rejected edit leaves the system untouched."""
from ..core import Instance
from .. import hist
from .c14 import META14

META = dict(META14)
META.update({
    "explanation": "Same symbolic-call machinery as C14, over all six editing / configuration calls (add_source, add_comp, change_comp, del_comp, set_sys_phases, "
                   "set_comp_phases with malformed arguments): on every path where the call raises, the structural snapshot (graph, six registries, every "
                   "component's parameters and limits) and every report (solve, rail_rep, params, limits, phases, tree, save document) are compared before/after, "
                   "and a follow-up accepted call is compared with a twin system that never saw the rejected call.",
    "functions": ["system.System.add_source/add_comp/change_comp/del_comp/set_sys_phases/set_comp_phases (validate-before-mutate ordering)"],
    "bounds": "11 base histories x 1 symbolic (rejected) call; argument pools as C14; 5 phase dictionaries and 6 phase configurations incl. malformed ones",
})


def instances(tier):
    out = []
    for b in hist.EDIT_BASES:
        if tier == "quick" and b in ("reused-index-subtree", "relinked-mux-input-with-sibling"):
            continue  # (each base costs 2-6 CPU minutes here; these two are in C14, C16, C12 and in the thorough tier of C15)
        out.append(Instance("C15", "c14:h_rejected", dict(base=b, always_reports=(tier == "thorough")), name="H/%s" % b, cover=["rejected"], max_paths=30000, weight=10, time_limit=2500))
    return out, META
