"""C18 -- batt_life() steps the battery with the solved current, phase by phase.  (Shared battery harness with C17.)"""
from ..core import Instance
from ..ops import Eq, And, Or, Not, Implies, Iff, IsZero, Gt, Ge, Lt, Le, Abs, cond, TRUE, Div
from .. import spec, sysh, shapes, symx
from ..shapes import S, N


class Boom(Exception):
    """Injected callback failure."""


class Interrupt(BaseException):
    """Injected abort that is not an Exception (what Ctrl-C / sys.exit() inside a battery model raise)."""


class SolverBoom(RuntimeError):
    """Injected solver failure."""


class Battery:
    """Nondeterministic battery model: every probe/deplete call returns a fresh symbolic (capacity, voltage, resistance);
    arguments are recorded; optionally raises at a given call."""

    def __init__(self, ctx, K, raise_at=None, rs_zero=False, imax=None, cutoff=None, exc=Boom):
        self.ctx, self.K, self.raise_at, self.rs_zero = ctx, K, raise_at, rs_zero
        self.exc = exc
        self.imax, self.cutoff = imax, cutoff
        self.states, self.args = [], []

    def _fresh(self, k):
        ctx = self.ctx
        cap, volt = ctx.real("cap%d" % k), ctx.real("volt%d" % k)
        rs = 0.0 if self.rs_zero else ctx.real("brs%d" % k)
        if not self.rs_zero:
            ctx.assume(rs >= 0)
            ctx.nice(rs, [0.05, 0.1])
            if self.imax is not None:
                # a battery that is used further is not overloaded: its terminal voltage stays positive
                ctx.assume(Or(Not(And(Gt(cap, 0.0), Gt(volt, self.cutoff))), Gt(volt, rs * self.imax)))
        ctx.nice(cap, [1.0 - 0.3 * k, 0.5, -0.1])
        ctx.nice(volt, [4.0 - 0.2 * k, 3.0])
        self.states.append((cap, volt, rs))
        return (cap, volt, rs)

    def pfunc(self):
        if self.raise_at == "probe":
            raise self.exc("probe failed")
        return self._fresh(0)

    def dfunc(self, t, i):
        k = len(self.args) + 1
        self.args.append((t, i))
        if self.raise_at == k:
            raise self.exc("deplete call %d failed" % k)
        if k > self.K:
            from ..core import Skip

            raise Skip("more than K deplete calls: outside the bound")
        return self._fresh(k)


def run_batt(ctx, sysobj, shape, battery, batt, cutoff, solver_fail_at=None):
    """Real batt_life(); every inner _solve starts from its own arbitrary iterate and only converged (exact fixed point,
    polarity-keeping) iterates survive - the same one-step abstraction as the system harness, one set of iterate symbols
    per inner solve.  What the solver's tolerance does to the current is C03's subject."""
    orig = sysobj._solve
    calls = [0]

    def counted(*a, **kw):
        calls[0] += 1
        if solver_fail_at is not None and calls[0] == solver_fail_at:
            raise SolverBoom("injected solver failure")
        return orig(*a, **kw)

    sysobj._solve = counted
    try:
        with sysh.Wrapped(ctx, sysobj, sysh.depth_of(shape), tag=lambda: "#%d" % calls[0]):
            return sysobj.batt_life(battery, cutoff=cutoff, pfunc=batt.pfunc, dfunc=batt.dfunc)
    finally:
        del sysobj._solve


def spec_current(ctx, shape, info, state, phase):
    """Spec: steady-state output current of the battery for the given (voltage, resistance) in the given phase, for the
    feed-forward probe systems of the catalogue (Source -> ILoad ; Source(rs=0) -> Converter -> ILoad)."""
    cap, volt, rs = state
    kinds = [n["kind"] for n in shape["nodes"]]
    src = shape["nodes"][0]["name"]
    if kinds == ["Source", "ILoad"]:
        L = shape["nodes"][1]["name"]
        v_term = volt - rs * 0  # the load current does not depend on the rail voltage
        return sysh.load_val(info, L, phase)
    if kinds == ["Source", "RLoad"]:
        # the only probe whose battery current depends on the battery's present voltage AND impedance: i = V / (rs + R)
        L = shape["nodes"][1]["name"]
        return Div(Abs(volt), Abs(rs) + sysh.load_val(info, L, phase))
    if kinds == ["Source", "Converter", "ILoad"]:
        C, L = shape["nodes"][1]["name"], shape["nodes"][2]["name"]
        P = info[C]["P"]
        io = sysh.load_val(info, L, phase)
        if not sysh.is_active(info, C, phase):
            return Abs(P.get("iis", 0.0))
        return spec.iin("Converter", P, volt, io)
    raise KeyError(kinds)


def e_stepping(ctx, shape, K=2):
    sysobj, info, durations = sysh.build_system(ctx, shape)
    battery = shape["nodes"][0]["name"]
    rs_zero = len(shape["nodes"]) > 2
    cutoff = ctx.real("cutoff")
    ctx.assume(cutoff >= 0)
    ctx.nice(cutoff, [3.5, 3.0])
    imax = None
    if not rs_zero and shape["nodes"][1]["kind"] == "ILoad":  # (a resistive load cannot overload the battery)
        L = shape["nodes"][1]["name"]
        imax = 0.0
        for ph in (list(durations) or [""]):
            from ..ops import Max

            imax = Max(imax, sysh.load_val(info, L, ph))
    batt = Battery(ctx, K, rs_zero=rs_zero, imax=imax, cutoff=cutoff)
    # capacity eventually runs out: every load draws a positive current in every phase
    for nd in shape["nodes"]:
        if nd["kind"] == "ILoad":
            P = info[nd["name"]]["P"]
            ctx.assume(P["ii"] > 0)
            if "iis" in P and hasattr(P["iis"], "t"):
                ctx.assume(P["iis"] > 0)
            for v in (info[nd["name"]]["conf"] or {}).values():
                ctx.assume(v > 0)
    df = run_batt(ctx, sysobj, shape, battery, batt, cutoff)
    n = len(batt.args)
    ctx.cover("deplete-calls=%d" % n)
    phases = list(durations) if durations else [""]
    alive = lambda s: And(Gt(s[0], 0.0), Gt(s[1], cutoff))
    # (1) arguments of every deplete call
    for j, (t, i) in enumerate(batt.args):
        ph = phases[j % len(phases)]
        cur = spec_current(ctx, shape, info, batt.states[j], ph)
        ctx.check("deplete-current=steady-state-current-of-present-state", Eq(i, cur), info={"call": j + 1, "phase": ph})
        if durations:
            ctx.check("deplete-time=phase-duration", Eq(t, durations[ph]), info={"call": j + 1, "phase": ph})
        else:
            ctx.check("deplete-time=time-for-1/1000-of-initial-capacity", Eq(t * cur, batt.states[0][0] * 3.6), info={"call": j + 1})
        ctx.check("called-only-while-alive", alive(batt.states[j]), info={"call": j + 1})
    # (2) the loop stops exactly at the first state violating either condition
    if len(batt.states) == n + 1:
        ctx.check("stops-at-first-dead-state", Not(alive(batt.states[n])), info={"calls": n})
    # (3) the log: initial state followed by every later state that is alive; strictly increasing time
    rows = [(r["Time (s)"], r["Capacity (Ah)"], r["Voltage (V)"], r["Resistance (Ohm)"]) for _, r in df.iterrows()]
    expect = [(0.0,) + tuple(batt.states[0])]
    tsum = 0.0
    for j in range(1, len(batt.states)):
        tsum = tsum + batt.args[j - 1][0]
        if j < n or True:
            expect.append((tsum,) + tuple(batt.states[j]))
    # states 1..n-1 are alive (the loop continued); state n is the terminating one and must not be logged
    want = expect[:n] if len(batt.states) == n + 1 else expect[:n]
    if n == 0:
        want = expect[:1]
    ctx.check("log-length", cond(len(rows) == len(want)), info={"rows": len(rows), "expected": len(want)})
    for k, (row, w) in enumerate(zip(rows, want)):
        for col, (a, b) in zip(("time", "capacity", "voltage", "resistance"), zip(row, w)):
            ctx.check("log-row", Eq(a, b), info={"row": k, "col": col})
    for k in range(1, len(rows)):
        ctx.check("time-strictly-increasing", Gt(rows[k][0], rows[k - 1][0]), info={"row": k})


def e_not_a_source(ctx, shape):
    sysobj, info, durations = sysh.build_system(ctx, shape)
    for nd in shape["nodes"][1:]:
        try:
            sysobj.batt_life(nd["name"], cutoff=1.0, pfunc=lambda: (1.0, 4.0, 0.1), dfunc=lambda t, i: (0.0, 0.0, 0.0))
            ctx.fail("non-source-rejected", info={"name": nd["name"]})
        except ValueError:
            ctx.check("non-source-rejected", TRUE)
    try:
        sysobj.batt_life("no such name", cutoff=1.0, pfunc=lambda: (1.0, 4.0, 0.1), dfunc=lambda t, i: (0.0, 0.0, 0.0))
        ctx.fail("unknown-name-rejected")
    except ValueError:
        ctx.check("unknown-name-rejected", TRUE)
    ctx.cover("checked")


PROBES = {
    "src-iload": S(N("B", "Source", only=()), N("L", "ILoad", "B", only=())),
    "src-iload-phases": S(N("B", "Source", only=()), N("L", "ILoad", "B", phases=["a", "b"], only=()), phases=["a", "b"]),
    "src-iload-sleep": S(N("B", "Source", only=()), N("L", "ILoad", "B", phases=["b"], only=("iis",)), phases=["a", "b"]),
    # a phase in which the battery delivers exactly 0 A (the load is off and has no sleep current): the model is still stepped
    "src-iload-off": S(N("B", "Source", only=()), N("L", "ILoad", "B", phases=["b"], only=()), phases=["a", "b"]),
    "src-rload": S(N("B", "Source", only=()), N("L", "RLoad", "B", only=())),
    "conv-iload": S(N("B", "Source", only=()), N("C", "Converter", "B", only=()), N("L", "ILoad", "C", only=())),
    "conv-iload-phases": S(N("B", "Source", only=()), N("C", "Converter", "B", phases=["a"], only=("iis",)), N("L", "ILoad", "C", only=()), phases=["a", "b", "c"]),
}

META = {
    "explanation": "Real batt_life() (with the real inner _solve loop, bounded) executed with a NONDETERMINISTIC battery model: every probe / deplete call "
                   "returns a fresh symbolic (capacity, voltage, resistance) and records its arguments.  For every path with <= K deplete calls the solver "
                   "proves: call j receives the duration of phase j mod n (or the time to draw 1/1000 of the initial capacity) and the spec's steady-state "
                   "source current for the PREVIOUS state in that phase; the loop continues exactly while capacity > 0 and voltage > cutoff; the log is the "
                   "initial state plus every later alive state with strictly increasing time; non-Source names are rejected.",
    "functions": ["system.System.batt_life 1822-1885", "system.System._solve (inner, real loop bounded to depth+4 sweeps)", "system.System._chk_parent/_get_index"],
    "bounds": "K = 2 (quick) / 4 (thorough) deplete calls; feed-forward probe systems Source->ILoad and Source(rs=0)->Converter->ILoad with and without "
              "phases (2-3); cutoff >= 0; positive load currents",
    "outside": "batteries needing more than K steps (identical loop body per step); probe systems with series-resistance feedback; zero source current "
               "(capacity never runs out); tqdm progress output",
    "assumptions": ["floats as reals", "battery capacity eventually runs out (all load currents > 0)", "inner solve converges within depth+4 sweeps "
                    "(paths that do not are pruned and counted)"],
}


def instances(tier):
    out = []
    K = 3 if tier == "quick" else 6
    for sid, sh in PROBES.items():
        k = K
        out.append(Instance("C18", "c18:e_stepping", dict(shape=sh, K=k), name="E/%s/K=%d" % (sid, k), uf=True,
                            cover=["deplete-calls=0", "deplete-calls=1", "deplete-calls=2"], weight=20, max_paths=6000))
    out.append(Instance("C18", "c18:e_not_a_source", dict(shape=PROBES["conv-iload"]), name="E/not-a-source", cover=["checked"]))
    return out, META
