"""C07 -- subsystem, total, average and energy rows are exact aggregates."""
from ..core import Instance
from .. import shapes
from ..shapes import S, N
from .c01 import META as M1

META = dict(M1)
META.update({
    "explanation": "Real solve() (row loop, _find_domain, pandas aggregation 1004-1150, _calc_energy) executed on proxies from an arbitrary "
                   "converged iterate; the Domain of every row, every Subsystem / System total / System average cell and every energy cell "
                   "is compared with a spec interpreter over the harness's own description of the tree.  Multi-source structures are "
                   "built in several insertion orders so that the row-emission order varies.",
    "functions": ["system.System.solve 929-1150", "system.System._find_domain", "system.System._calc_energy", "components._get_eff"],
    "bounds": "shape catalogue below (<= 8 nodes, <= 3 sources, <= 1 mux); averages: 2 phases on <= 4-node shapes",
})


def instances(tier):
    out = []
    for sid, sh in shapes.multi_source_shapes().items():
        out.append(Instance("C07", "sys_common:s_run", dict(shape=sh, oracle="c07", opts={"energy": True}), name="S/" + sid, uf=True,
                            cover=["solved"], weight=20))
    out.append(Instance("C07", "sys_common:s_run", dict(shape=shapes.curated()["conv-pload"], oracle="c07", opts={"energy": True}),
                        name="S/single-source", uf=True, cover=["solved"]))
    ph = ["a", "b"]
    avg = {
        "avg-src-pload": S(N("S", "Source"), N("L", "PLoad", "S", phases=["a", "b"]), phases=ph),
        "avg-conv-iload": S(N("S", "Source", only=()), N("C", "Converter", "S", phases=["a"], only=("iis",)), N("L", "ILoad", "C", only=()), phases=ph),
        "avg-two-sources": S(N("S1", "Source", only=()), N("L1", "ILoad", "S1", phases=["a"], only=("iis",)), N("S2", "Source", only=()),
                             N("L2", "RLoad", "S2", only=()), phases=ph),
    }
    avg["avg-mux-source-changes"] = S(N("S1", "Source", phases=["a"], only=()), N("S2", "Source", only=()), N("C", "Converter", "S2", only=()),
                                      N("M", "PMux", ["S1", "C"], only=("rs",)), N("L", "ILoad", "M", only=()), phases=ph)
    for sid, sh in avg.items():
        out.append(Instance("C07", "sys_common:s_run", dict(shape=sh, oracle="c07", opts={"energy": True}), name="S/" + sid, uf=True,
                            cover=["solved", "average"], weight=30))
        out.append(Instance("C07", "sys_common:s_run", dict(shape=sh, oracle="c07", opts={"energy": True, "phase": "b"}),
                            name="S/" + sid + "@b", uf=True, cover=["solved"], weight=10))
    from ..shapes import variants as _variants
    for sid, shape in _variants().items():
        if sid not in ('hole/two-src', 'hole/mux', 'by-rail/mux', 'reuse/mux-deep-input', 'reuse/mux-deep-input-2nd'):
            continue
        out.append(Instance("C07", "sys_common:s_run", dict(shape=shape, oracle="c07", opts={"energy": True}), name="S/var/" + sid, uf=True, cover=["solved"], weight=20))
    if tier == "thorough":
        for sid, sh in shapes.enumerate_mux().items():
            if sid.startswith("mux4"):
                continue
            out.append(Instance("C07", "sys_common:s_run", dict(shape=sh, oracle="c07", opts={"energy": True}), name="S/enum/" + sid, uf=True,
                                cover=["solved"], weight=15, max_paths=8000, time_limit=3000))
    return out, META
