"""C20 -- PCB trace / plane resistance follow the documented closed forms."""
from ..core import Instance
from ..ops import Eq, And


def _inputs(ctx):
    n = {}
    for k in ("w1", "w2", "l", "t", "rho", "temp", "tcr", "k"):
        n[k] = ctx.real(k)
    for k in ("w1", "w2", "l", "t", "rho", "k"):
        ctx.assume(n[k] > 0)
    return n


def trace(ctx):
    from sysloss.utils import trace_res

    n = _inputs(ctx)
    w1, w2, l, t, rho, temp, tcr, k = (n[x] for x in ("w1", "w2", "l", "t", "rho", "temp", "tcr", "k"))
    r = trace_res(w1_mm=w1, w2_mm=w2, l_mm=l, t_mm=t, rho=rho, temp=temp, tcr=tcr)
    ctx.cover("evaluated")
    # documented closed form, SI: metres for lengths
    area = ((w1 + w2) / 2 / 1000.0) * (t / 1000.0)
    ref = rho * (l / 1000.0) / area * (1 + tcr * (temp - 20.0))
    ctx.check("closed-form", Eq(r, ref))
    f = lambda **kw: trace_res(**{**dict(w1_mm=w1, w2_mm=w2, l_mm=l, t_mm=t, rho=rho, temp=temp, tcr=tcr), **kw})
    ctx.check("proportional-length", Eq(f(l_mm=k * l), k * r))
    ctx.check("proportional-rho", Eq(f(rho=k * rho), k * r))
    ctx.check("inverse-thickness", Eq(f(t_mm=k * t) * k, r))
    ctx.check("inverse-mean-width", Eq(f(w1_mm=k * w1, w2_mm=k * w2) * k, r))
    ctx.check("symmetric-w1-w2", Eq(f(w1_mm=w2, w2_mm=w1), r))
    # affine in temperature: second difference vanishes
    ctx.check("affine-temp", Eq(f(temp=temp + 2 * k) - f(temp=temp + k), f(temp=temp + k) - r))
    ctx.check("temp-20-is-base", Eq(f(temp=20.0), rho * (l / 1000.0) / area))


def plane(ctx):
    from sysloss.utils import plane_res, trace_res

    n = _inputs(ctx)
    w, w2, l, t, rho, temp, tcr, k = (n[x] for x in ("w1", "w2", "l", "t", "rho", "temp", "tcr", "k"))
    r = plane_res(w=w, l=l, t_mm=t, rho=rho, temp=temp, tcr=tcr)
    ctx.cover("evaluated")
    ref = (rho / (t / 1000.0)) * (l / w) * (1 + tcr * (temp - 20.0))
    ctx.check("closed-form", Eq(r, ref))
    f = lambda **kw: plane_res(**{**dict(w=w, l=l, t_mm=t, rho=rho, temp=temp, tcr=tcr), **kw})
    ctx.check("proportional-length", Eq(f(l=k * l), k * r))
    ctx.check("proportional-rho", Eq(f(rho=k * rho), k * r))
    ctx.check("inverse-thickness", Eq(f(t_mm=k * t) * k, r))
    ctx.check("inverse-width", Eq(f(w=k * w) * k, r))
    ctx.check("affine-temp", Eq(f(temp=temp + 2 * k) - f(temp=temp + k), f(temp=temp + k) - r))
    ctx.check("trace-equals-plane", Eq(trace_res(w1_mm=w, w2_mm=w, l_mm=l, t_mm=t, rho=rho, temp=temp, tcr=tcr), r))


def defaults(ctx):
    """Default rho/temp/tcr arguments: same closed form with the documented constants."""
    from sysloss import utils

    w1, w2, l, t = (ctx.real(x) for x in ("w1", "w2", "l", "t"))
    for x in (w1, w2, l, t):
        ctx.assume(x > 0)
    ctx.cover("evaluated")
    r = utils.trace_res(w1_mm=w1, w2_mm=w2, l_mm=l, t_mm=t)
    ctx.check("trace-defaults", Eq(r, utils.RHO * (l / 1000.0) / (((w1 + w2) / 2 / 1000.0) * (t / 1000.0))))
    p = utils.plane_res(w=w1, l=l, t_mm=t)
    ctx.check("plane-defaults", Eq(p, (utils.RHO / (t / 1000.0)) * (l / w1)))
    ctx.check("default-temp-is-20", Eq(utils.trace_res(w1_mm=w1, w2_mm=w2, l_mm=l, t_mm=t, temp=20.0, tcr=w2), r))


def repeat(ctx, t=0.030517578125):
    """The formulas are functions of their arguments: a second and third call in the same process (same concrete layer
    thickness - a hashable float, which is what a memo would key on - and other symbolic arguments) still obey the
    closed form, in both call orders across the two functions.  The thicknesses are 1000 * 2^-15 and 1000 * 2^-14 mm so
    that the concrete float division t_mm / 1e3 inside plane_res is exact (floats are modelled as reals)."""
    from sysloss.utils import trace_res, plane_res

    a, b = _inputs(ctx), {k: ctx.real(k + "'") for k in ("w1", "w2", "l", "rho", "temp", "tcr")}
    for k in ("w1", "w2", "l", "rho"):
        ctx.assume(b[k] > 0)
    ctx.cover("evaluated")
    tref = lambda n: n["rho"] * (n["l"] / 1000.0) / (((n["w1"] + n["w2"]) / 2 / 1000.0) * (t / 1000.0)) * (1 + n["tcr"] * (n["temp"] - 20.0))
    pref = lambda n: (n["rho"] / (t / 1000.0)) * (n["l"] / n["w1"]) * (1 + n["tcr"] * (n["temp"] - 20.0))
    tr = lambda n: trace_res(w1_mm=n["w1"], w2_mm=n["w2"], l_mm=n["l"], t_mm=t, rho=n["rho"], temp=n["temp"], tcr=n["tcr"])
    pl = lambda n: plane_res(w=n["w1"], l=n["l"], t_mm=t, rho=n["rho"], temp=n["temp"], tcr=n["tcr"])
    ctx.check("first-call", Eq(tr(a), tref(a)))
    ctx.check("second-call-other-arguments", Eq(tr(b), tref(b)))
    ctx.check("plane-after-trace", Eq(pl(b), pref(b)))
    ctx.check("plane-after-plane", Eq(pl(a), pref(a)))
    ctx.check("trace-after-plane", Eq(tr(a), tref(a)))


META = {
    "explanation": "Symbolic execution of the real sysloss.utils.trace_res / plane_res on z3 real proxies; each "
                   "documented algebraic law is one solver query (exact nonlinear real arithmetic) whose negation must be unsat "
                   "for all positive dimensions/resistivities and all temperatures/coefficients.",
    "functions": ["sysloss.utils.trace_res", "sysloss.utils.plane_res"],
    "bounds": "none on values (mathematical reals, positive dimensions); loop-free code, 1 path per harness; call sequences of <= 5 calls "
              "at two concrete layer thicknesses (c20:repeat)",
    "outside": "binary64 rounding/overflow",
    "assumptions": ["Python floats modelled as mathematical reals", "w1,w2,l,t,rho,k > 0; temp, tcr arbitrary"],
}


def instances(tier):
    return [Instance("C20", "c20:trace", cover=["evaluated"]), Instance("C20", "c20:plane", cover=["evaluated"]),
            Instance("C20", "c20:defaults", cover=["evaluated"]),
            Instance("C20", "c20:repeat", dict(t=0.030517578125), cover=["evaluated"]),
            Instance("C20", "c20:repeat", dict(t=0.06103515625), cover=["evaluated"])], META
