"""C12 -- save() / System.from_file() round-trips the whole system."""
import os
import tempfile

from ..core import Instance
from ..ops import Eq, And, Or, Not, Implies, Iff, cond, TRUE
from .. import spec, sysh, shapes, snap
from ..shapes import S, N
from ..envstubs import memory_files
from .c09 import mk_limits


def _limited(ctx, shape, keys):
    shape = {"nodes": [dict(n) for n in shape["nodes"]], "phases": shape.get("phases")}
    from ..build import cls_of

    for nd in shape["nodes"]:
        if keys:
            # only limits that apply to the kind are part of the round-trip claim ("applicable limits")
            docs = spec.documented_limits(cls_of(nd["kind"]))
            nd["limits"] = mk_limits(ctx, nd["name"], [k for k in keys if k in docs] or docs[:1])
            for k, (lo, hi) in nd["limits"].items():
                # a limit equal to its default is displayed as "" by params(limits=True) (a fork per limit); the
                # round trip of such a limit is covered by the structural comparison, the display by C16
                ctx.assume(lo > (0.0 if k != "tp" else -1.0e6))
                ctx.assume(hi > lo)
                ctx.assume(hi < 1.0e6)
    return shape


def structure(sysobj):
    s = snap.snapshot(sysobj)
    g = sysobj._g
    comps = {}
    for nm, idx in g.attrs["nodes"].items():
        c = g[idx]
        comps[nm] = {"class": type(c).__name__, "params": dict(c._params), "applicable_limits": sysobj._get_applims(idx),
                     "interp": type(c._ipr).__name__ if c._ipr is not None else None}
    return {"names": s["names"], "parents": s["parents"], "groups": s["groups"], "rails": s["rails"], "phases": s["phases"],
            "phase_conf": s["phase_conf"], "sysname": s["sysname"]}, comps


def e_roundtrip(ctx, shape, lim_keys=("vi", "io"), reports=True):
    from sysloss.system import System

    shape = _limited(ctx, shape, list(lim_keys))
    sysobj, info, durations = sysh.build_system(ctx, shape, rt="all" if len(shape["nodes"]) <= 3 else "none")
    tmp = None
    with memory_files(ctx):
        if ctx.symbolic:
            fname = "mem://roundtrip.json"
        else:
            tmp = tempfile.NamedTemporaryFile(suffix=".json", delete=False)
            tmp.close()
            fname = tmp.name
        try:
            sysobj.save(fname)
            sys2 = System.from_file(fname)
        finally:
            if tmp is not None:
                os.unlink(fname)
    ctx.cover("reloaded")
    sa, ca = structure(sysobj)
    sb, cb = structure(sys2)
    snap.compare(ctx, sa, sb, "structure-equal")
    for nm in ca:
        if nm not in cb:
            ctx.fail("component-present-after-reload", info={"component": nm})
            continue
        snap.compare(ctx, ca[nm], cb[nm], "component-parameters-and-limits-equal", info={"component": nm, "kind": info[nm]["kind"]})
    if not reports:
        return
    # behaviour: every report of the reloaded system equals that of the original, cell by cell
    try:
        df1 = sysh.run_solve(ctx, sysobj, shape)
    except sysh.Unstable:
        ctx.note("unstable")
        return
    try:
        df2 = sysh.run_solve(ctx, sys2, shape)
    except sysh.Unstable:
        ctx.fail("reloaded-system-solves-like-original", info={"why": "reloaded raised Unstable system"})
        return
    ctx.cover("solved")
    snap.compare(ctx, snap.frame_by_name(df1), snap.frame_by_name(df2), "solve()-equal")
    if any(nd.get("rail") for nd in shape["nodes"]):
        r1 = sysh.run_solve(ctx, sysobj, shape, method="rail_rep")
        r2 = sysh.run_solve(ctx, sys2, shape, method="rail_rep")
        snap.compare(ctx, snap.frame_cells(r1), snap.frame_cells(r2), "rail_rep()-equal")
    snap.compare(ctx, snap.frame_by_name(sysobj.params(limits=True)), snap.frame_by_name(sys2.params(limits=True)), "params(limits=True)-equal")
    if shape.get("phases"):
        snap.compare(ctx, snap.frame_by_name(sysobj.phases()), snap.frame_by_name(sys2.phases()), "phases()-equal")


def h_roundtrip_after_history(ctx, base, nsym=0):
    """save()/from_file() after an EDIT HISTORY (deletions with re-linking, renames, index re-use, phases), optionally followed by one
    solver-chosen accepted call: every report of the reloaded system equals that of the saved one, rows matched by name."""
    import json
    from sysloss.system import System
    from .. import hist
    from ..core import Skip
    from .c14 import _try, ALL_OPS, _opinfo

    sysobj, m = hist.replay_base(hist.BASES[base])
    calls = []
    for k in range(nsym):
        op = hist.symbolic_call(ctx, m, "c%d" % k, ALL_OPS)
        if _try(sysobj, op) is not None:
            raise Skip("rejected call")
        try:
            m.apply(op)
        except Exception:  # noqa: BLE001
            raise Skip("accepted call outside the documented rules: C14's subject")
        calls.append(_opinfo(op))
    if hist.well_formed(sysobj):
        raise Skip("ill-formed: C14's subject")
    tmp = tempfile.NamedTemporaryFile(suffix=".json", delete=False)
    tmp.close()
    inf = {"base": base, "calls": calls}
    try:
        try:
            rep1 = hist.reports(sysobj)
            sysobj.save(tmp.name)
            sys2 = System.from_file(tmp.name)
            rep2 = hist.reports(sys2)
        except Exception as e:  # noqa: BLE001
            ctx.check("save-and-reload-succeed", cond(False), key="roundtrip-fails/%s" % type(e).__name__, info={**inf, "error": repr(e)[:200]})
            return
    finally:
        os.unlink(tmp.name)
    ctx.cover("reloaded")
    for name in ("solve", "rail_rep", "params", "limits", "phases", "tree"):
        snap.compare(ctx, rep1[name], rep2[name], "%s-equal-after-reload" % name, key="reload-differs/%s" % name, info=inf)
    a, b = rep1["save"], rep2["save"]
    for d in (a, b):
        for reg in ("phase_conf", "groups", "rails"):
            d["system"][reg] = dict(sorted(d["system"][reg].items(), key=lambda kv: str(kv[0])))
    snap.compare(ctx, a, b, "save-document-equal-after-reload", key="reload-differs/save", info=inf)


def e_version(ctx):
    """A file written by a newer sysLoss version is refused with ValueError; same or older is accepted."""
    import sysloss
    from sysloss.system import System
    from sysloss.components import Source
    import json

    cur = tuple(int(x) for x in sysloss.__version__.split(".")[:3])
    d = [ctx.choice("d%d" % k, 3) - 1 for k in range(3)]  # each component one below / equal / one above
    ver = tuple(max(0, c + dd) for c, dd in zip(cur, d))
    s = System("v", Source("S", vo=5.0))
    tmp = tempfile.NamedTemporaryFile(suffix=".json", delete=False, mode="w")
    tmp.close()
    try:
        s.save(tmp.name)
        doc = json.load(open(tmp.name))
        doc["system"]["version"] = "%d.%d.%d" % ver
        json.dump(doc, open(tmp.name, "w"))
        try:
            System.from_file(tmp.name)
            refused = False
        except ValueError:
            refused = True
    finally:
        os.unlink(tmp.name)
    ctx.cover("newer" if ver > cur else "not-newer")
    ctx.check("newer-version-refused<=>version-greater", cond(refused == (ver > cur)), info={"file_version": ver, "current": cur})


META = {
    "explanation": "Real save() (writer, _get_applims, _get_childs_tree) and real System.from_file() (the ~40 hand-written keyword mappings) executed on "
                   "proxies with every component parameter, limit, duration and per-phase value symbolic; the JSON layer is an in-memory pass-through of "
                   "the Python object tree (a real temp file is used when a counterexample is replayed).  Obligations: same structure (parents, mux input "
                   "order, groups, rails, phases, phase configuration), every parameter / applicable limit / table entry solver-equal, and solve(), "
                   "rail_rep(), params(limits=True), phases() cell-wise equal.  Version gate: concrete files with version below/equal/above the current one.",
    "functions": ["system.System.save", "system.System._get_applims", "system.System._get_childs_tree", "system.System.from_file",
                  "components.*.__init__ (as called by the loader)"],
    "bounds": "shape catalogue below (<= 7 nodes; every kind and parameter form const / 1-D table / 2-D table at least once); 2 symbolic limits per component",
    "outside": "JSON text syntax and float printing (only exercised by the concrete replay); pre-release version strings",
    "assumptions": ["floats as reals", "json.load(json.dump(x)) == x for dict/list/str/bool/number trees"],
}


def instances(tier):
    out = [Instance("C12", "c12:e_version", {}, cover=["newer", "not-newer"])]
    cat = {}
    cur = shapes.curated()
    for k in ("conv-pload", "rloss-iload", "vloss-pload", "linreg-rload", "pswitch-conv-pload", "rectd-iload", "rectm-pload", "fanout3",
              "two-sources", "mux2", "mux-same-source", "src-rload"):
        cat[k] = cur[k]
    cat["tables-1d"] = S(N("S", "Source"), N("C", "Converter", "S", form="t1x2"), N("G", "LinReg", "C", form="t1x2"), N("V", "VLoss", "G", form="t1x2"),
                         N("L", "ILoad", "V"))
    cat["tables-2d"] = S(N("S", "Source"), N("W", "PSwitch", "S", form="ct2x2x2"), N("D", "RectD", "W", form="ct2x2x2"), N("L", "PLoad", "D"))
    cat["tables-mux-rectm"] = S(N("S1", "Source"), N("S2", "Source"), N("M", "PMux", ["S1", "S2"], form="t1x2"), N("D", "RectM", "M", form="t1x2"),
                                N("L", "RLoad", "D"))
    cat["groups-rails-phases"] = S(N("S", "Source", rail="VIN", group="pwr"), N("C", "Converter", "S", rail="3V3", group="pwr", phases=["a"]),
                                   N("L1", "PLoad", "C", group="mcu", phases=["a", "b"]), N("L2", "ILoad", "S", phases=["b"], loss=True),
                                   N("L3", "RLoad", "C", phases=["a"]), phases=["a", "b"])
    cat["mux-order"] = S(N("S1", "Source"), N("S2", "Source"), N("S3", "Source"), N("M", "PMux", ["S3", "S1", "S2"], rs_list=True), N("L", "ILoad", "M"))
    # one small shape per kind so that EVERY parameter of every kind (incl. rt, sleep currents, loss flag) is symbolic in a round trip
    for kind in spec.KINDS:
        if kind in ("Source", "PMux"):
            continue
        if kind in spec.LOADS:
            cat["kind-" + kind] = S(N("S", "Source"), N("X", kind, "S", loss=(kind != "PLoad")))
        else:
            cat["kind-" + kind] = S(N("S", "Source"), N("X", kind, "S"), N("L", "ILoad", "X", only=()))
    cat["kind-PMux"] = S(N("S", "Source", only=()), N("S2", "Source"), N("X", "PMux", ["S", "S2"], rs_list=True), N("L", "ILoad", "X", only=()))
    cat["kind-PMux-scalar-rs"] = S(N("S", "Source", only=()), N("X", "PMux", ["S"]), N("L", "PLoad", "X", loss=True))
    from .. import hist

    for b in hist.BASES:
        out.append(Instance("C12", "c12:h_roundtrip_after_history", dict(base=b, nsym=0), name="H/%s/base" % b, cover=["reloaded"], weight=1))
        if tier == "thorough" or b in ("mux-below", "relinked-mux-input", "after-rename", "phased", "by-rail"):
            out.append(Instance("C12", "c12:h_roundtrip_after_history", dict(base=b, nsym=1), name="H/%s/+1" % b, cover=["reloaded"], max_paths=30000,
                                weight=10, time_limit=2500))
    for sid, sh in cat.items():
        big = len(sh["nodes"]) > 4
        out.append(Instance("C12", "c12:e_roundtrip", dict(shape=sh, lim_keys=["vi", "io", "pl"]), name="E/" + sid, uf=True,
                            cover=["reloaded", "solved"], weight=30 if big else 10))
    return out, META
