"""C02 -- energy conservation; loss / efficiency / temperature accounting."""
from ..core import Instance
from ..ops import Eq, And, Or, Not, Implies, Iff, IsZero, Gt, Ge, Lt, Le, Abs, cond, TRUE, Ite, Div
from .. import spec
from ..build import params, construct, TABLE_KEY
from .c01 import phase_args, PHASE_MODES


def u_energy(ctx, kind, form="const", phase="none", loss=False, warm=False):
    """One component: (vo, ii) produced by the component's own laws from (vi, io); then the real _solv_pwr_loss
    called exactly the way solve() calls it (scalar vi, no pstate)."""
    P = params(ctx, kind, "X", form, loss=loss)
    try:
        comp = construct(kind, "X", P)
    except ValueError:
        ctx.note("constructor-rejected")
        return
    vi, io, ta = ctx.real("vi"), ctx.real("io"), ctx.real("ta")
    ctx.assume(io >= 0)
    ctx.nice(vi, [-12.0, 12.0, -5.0, 5.0, -20.0, 20.0])
    ctx.nice(io, [0.5, 0.3, 0.8])
    if kind in spec.LOADS:
        ctx.assume(io == 0)
    ph, conf, active, lval = phase_args(ctx, kind, P, phase)
    if kind == "Converter":
        ctx.assume(Not(IsZero(P["vo"])))
    pol = spec.keeps_polarity(kind, P, vi, io)
    try:
        vo_, st = comp._solv_outp_volt([vi], 0.0, io, ph, conf, {})
    except ValueError as e:
        if "Unstable system" not in str(e):
            raise
        ctx.note("unstable")
        return
    ii_ = comp._solv_inp_curr([vi], vo_, io, ph, conf, {})
    if warm:
        # the same operating point has been evaluated before at ANOTHER ambient temperature (a second solve(ta=...) of the same
        # system): nothing kept from that evaluation may show in the one checked here
        ta0 = ctx.real("ta_before")
        if kind == "Source":
            comp._solv_pwr_loss(vo_ + Abs(P["rs"]) * ii_, vo_, ii_, ii_, ta0, ph, conf)
        else:
            comp._solv_pwr_loss(vi, vo_, ii_, io, ta0, ph, conf)
        ctx.cover("warmed")
    if kind == "Source":
        # solve(): vi = v[n] + rs*ii, vo = v[n], ii = io = i[n]
        p, l, e, tr, tp = comp._solv_pwr_loss(vo_ + Abs(P["rs"]) * ii_, vo_, ii_, ii_, ta, ph, conf)
    else:
        p, l, e, tr, tp = comp._solv_pwr_loss(vi, vo_, ii_, io, ta, ph, conf)
    ctx.cover("evaluated")
    rt = Abs(P.get("rt", 0.0))
    if kind in spec.LOADS:
        cons = Abs(vi) * ii_
        if P["loss"]:
            ctx.check("load-loss-is-consumption", And(Eq(l, cons), IsZero(p)))
        else:
            ctx.check("load-power-is-consumption", And(Eq(p, cons), IsZero(l)))
        loss = l if P["loss"] else p  # a load heats by what it consumes
        ctx.check("temp-rise", Eq(tr, rt * loss))
        ctx.check("peak-temp-live", Implies(Not(IsZero(vi)), Eq(tp, ta + tr)))
        ctx.check("peak-temp-dead", Implies(IsZero(vi), Eq(tp, ta + tr)), key="dead-component-peak-temp")
        return
    if kind == "Source":
        live = pol  # source keeps polarity (not overloaded)
        ctx.check("power-minus-loss=handed-on", Implies(And(live, Ge(P["vo"], 0.0)), Eq(p - l, Abs(vo_) * ii_)))
        ctx.check("power-minus-loss=handed-on-negative-source", Implies(And(live, Lt(P["vo"], 0.0)), Eq(p - l, Abs(vo_) * ii_)),
                  key="source-negative-vo-series-drop")
        ctx.check("loss-range", Implies(live, And(Ge(l, 0.0), Le(l, p))))
        ctx.check("efficiency", Implies(And(live, Gt(p, 0.0)), And(Eq(e * p, 100.0 * (p - l)), Ge(e, 0.0), Le(e, 100.0))))
        return
    ok = pol  # series elements: only states that keep polarity are in the quantifier
    ctx.check("power-minus-loss=handed-on", Implies(ok, Eq(p - l, Abs(vo_) * io)))
    ctx.check("loss-range", Implies(ok, And(Ge(l, 0.0), Le(l, p))))
    ctx.check("efficiency", Implies(And(ok, Gt(p, 0.0)), And(Eq(e * p, 100.0 * (p - l)), Ge(e, 0.0), Le(e, 100.0))))
    ctx.check("power=vin*iin", Eq(p, Abs(vi) * ii_))
    ctx.check("temp-rise", Eq(tr, rt * l))
    ctx.check("peak-temp-live", Implies(Not(IsZero(vi)), Eq(tp, ta + tr)))
    ctx.check("peak-temp-dead", Implies(IsZero(vi), Eq(tp, ta + tr)), key="dead-component-peak-temp")


def u_energy_mux(ctx, form="const", offs="00", phase="none"):
    """PMux with two inputs: (vo, ii) from the mux's own laws on the input VECTOR, then the real _solv_pwr_loss called the way
    solve() calls it - with the voltage of the selected input (of input 0 when none is live)."""
    from ..ops import TRUE

    P = params(ctx, "PMux", "M", form, nmux=2, rs_list=True)
    try:
        comp = construct("PMux", "M", P)
    except ValueError:
        ctx.note("constructor-rejected")
        return
    vi = [ctx.real("vi0"), ctx.real("vi1")]
    io, ta = ctx.real("io"), ctx.real("ta")
    ctx.assume(io >= 0)
    for k, v in enumerate(vi):
        ctx.nice(v, [12.0 - 7 * k, 0.0, -12.0 + 7 * k])
    ctx.nice(io, [0.5, 0.3])
    off = [c == "1" for c in offs]
    pstate = {"off": off}
    ph, conf, active, _ = phase_args(ctx, "PMux", P, phase)
    pinp = comp._get_pri_inp(pstate, vi)
    vo_, st = comp._solv_outp_volt(vi, 0.0, io, ph, conf, pstate)
    ii_ = comp._solv_inp_curr(vi, 0.0, io, ph, conf, pstate)
    vsel = vi[pinp] if pinp != -1 else vi[0]
    p, l, e, tr, tp = comp._solv_pwr_loss(vsel, vo_, ii_, io, ta, ph, conf)
    ctx.cover("evaluated")
    if pinp == -1:
        # no live input: solve() hands over input 0's voltage; an input that is merely switched off upstream may still be
        # non-zero there, so only the all-zero case is the dead case of the accounting
        ctx.check("dead-mux-accounts-nothing", Implies(IsZero(vsel), And(IsZero(p), IsZero(l))))
        return
    rs = P["rs"][pinp]
    ok = spec.keeps_polarity("PMux", P, vsel, io, rs_sel=rs)
    ctx.check("power=vin*iin", Eq(p, Abs(vsel) * ii_))
    ctx.check("power-minus-loss=handed-on", Implies(ok, Eq(p - l, Abs(vo_) * io)))
    ctx.check("loss-range", Implies(ok, And(Ge(l, 0.0), Le(l, p))))
    ctx.check("efficiency", Implies(And(ok, Gt(p, 0.0)), And(Eq(e * p, 100.0 * (p - l)), Ge(e, 0.0), Le(e, 100.0))))
    ctx.check("temp-rise", Eq(tr, Abs(P.get("rt", 0.0)) * l))
    ctx.check("peak-temp", Eq(tp, ta + tr))


META = {
    "explanation": "Bounded symbolic execution of the real _solv_pwr_loss / _get_eff bodies with (vo, ii) produced by the same "
                   "component's own laws, and of the real solve() row assembly and pandas aggregation on an arbitrary converged "
                   "iterate; conservation, range, efficiency and temperature identities are solver queries (exact NRA at unit "
                   "level; UF abstraction + exact refinement at system level).",
    "functions": ["components.*._solv_pwr_loss", "components._get_eff", "components.*._solv_outp_volt", "components.*._solv_inp_curr",
                  "system.System.solve (rows 935-1002, totals 1004-1126)", "system.System._child_curr"],
    "bounds": "unit level: all real parameter values, any vi, io>=0, any ta, any rt; tables const/1-D(2)/2-D(2x2, concrete axes); "
              "system level: shape catalogue (<=6 nodes)",
    "outside": "binary64 rounding; overloaded series elements (no polarity-keeping state) are C03's subject",
    "assumptions": ["floats modelled as reals", "io >= 0", "series elements keep polarity (quantifier of C01/C02)",
                    "Converter vo != 0"],
}


def instances(tier):
    out = []
    for kind in spec.KINDS:
        forms = ["const"]
        if kind in TABLE_KEY and kind != "PMux":
            forms += ["t1x2"] if tier == "quick" else ["t1x1", "t1x2", "t1x3"]
            forms += ["opaque"]  # any function of (|io|,|vi|) in the valid range: lookups must agree across the laws
            if tier == "thorough" and kind in ("VLoss", "RectD", "RectM"):
                forms += ["ct2x2x2"]
        for form in forms:
            phases = PHASE_MODES if (kind in spec.PHASED_LIST or kind in spec.LOADS) else ("none",)
            for ph in phases:
                if kind == "PMux":
                    continue
                out.append(Instance("C02", "c02:u_energy", dict(kind=kind, form=form, phase=ph), cover=["evaluated"],
                                    weight=5 if "t2" in form else (30 if form == "t1x3" else 1), time_limit=3000 if form == "t1x3" else None))
                if form in ("const", "opaque") and ph in ("none", "unlisted"):
                    out.append(Instance("C02", "c02:u_energy", dict(kind=kind, form=form, phase=ph, warm=True), cover=["evaluated", "warmed"]))
                if kind in spec.LOADS:  # the same load configured as a loss (powered, dead, switched off)
                    out.append(Instance("C02", "c02:u_energy", dict(kind=kind, form=form, phase=ph, loss=True), cover=["evaluated"]))
    for form in ("const", "t1x2", "opaque") + (("ct2x2x2",) if tier == "thorough" else ()):  # (exact 2-D: ~4 min per instance)
        for offs in ("00", "10"):
            for ph in (("none", "unlisted") if form == "const" else ("none",)):
                out.append(Instance("C02", "c02:u_energy_mux", dict(form=form, offs=offs, phase=ph), cover=["evaluated"], weight=5))
    from ..shapes import curated
    for sid, shape in curated().items():
        if sid in ("neg-src-rs",):
            continue
        names = [n["name"] for n in shape["nodes"] if n["kind"] != "Source"]
        out.append(Instance("C02", "sys_common:s_run", dict(shape=shape, oracle="c02", opts={"rt": names[-2:], "ta": True}),
                            name="S/" + sid, uf=True, cover=["solved"], weight=20, max_paths=3000))
    # the same operating point analysed before at another ambient temperature (state kept between analyses must not leak)
    for sid in ("depth4", "pswitch-conv-pload", "vloss-table", "mux2") if tier == "quick" else list(curated()):
        if sid not in curated() or sid == "neg-src-rs":
            continue
        shape = curated()[sid]
        names = [n["name"] for n in shape["nodes"] if n["kind"] != "Source"]
        out.append(Instance("C02", "sys_common:s_run", dict(shape=shape, oracle="c02", opts={"rt": names, "ta": True, "prior": [{"ta": "fresh"}]}),
                            name="S/after-other-ambient/" + sid, uf=True, cover=["solved"], weight=25, max_paths=3000))
    # phased systems with thermal resistances: sleeping elements, dead branches, loads configured as a loss
    from ..shapes import N, S, phase_shapes
    ph = ["a", "b"]
    phs = {
        "loss-loads-dead-branch": (S(N("S", "Source"), N("G", "LinReg", "S"), N("W", "PSwitch", "S", phases=["a"]),
                                     N("L1", "RLoad", "W", loss=True), N("L2", "PLoad", "W", loss=True), phases=ph), ["G", "L1", "L2"]),
        "conv-inactive": (phase_shapes()["conv-inactive"], ["C", "L1"]),
    }
    if tier == "thorough":
        phs["loads-phased"] = (phase_shapes()["loads-phased"], ["C", "L1", "L3"])
        phs["mux-inactive-first-dead"] = (phase_shapes()["mux-inactive-first-dead"], ["M", "W"])
    for sid, (shape, rts) in phs.items():
        out.append(Instance("C02", "sys_common:s_run", dict(shape=shape, oracle="c02", opts={"rt": rts, "ta": True}),
                            name="S/ph/" + sid, uf=True, cover=["solved"], weight=25, max_paths=4000))
    from ..shapes import variants as _variants
    for sid, shape in _variants().items():
        out.append(Instance("C02", "sys_common:s_run", dict(shape=shape, oracle="c02"), name="S/var/" + sid, uf=True, cover=["solved"], weight=20))
    if tier == "thorough":
        from ..shapes import pair_cover, enumerate_trees
        for sid, shape in enumerate_trees(3).items():
            names = [n["name"] for n in shape["nodes"] if n["kind"] != "Source"]
            out.append(Instance("C02", "sys_common:s_run", dict(shape=shape, oracle="c02", opts={"rt": names[:1], "ta": True}),
                                name="S/enum3/" + sid, uf=True, cover=["solved"], weight=8, max_paths=6000, time_limit=3000))
        for sid, shape in pair_cover().items():
            out.append(Instance("C02", "sys_common:s_run", dict(shape=shape, oracle="c02", opts={"rt": ["X"], "ta": True}),
                                name="S/pair/" + sid, uf=True, cover=["solved"], weight=15, max_paths=6000, time_limit=3000))
    return out, META
