"""C10 -- tabulated parameters: exact on the grid, linear between, clamped outside, never NaN."""
from ..core import Instance
from ..ops import Eq, And, Or, Not, Implies, IsZero, Gt, Ge, Lt, Le, Abs, cond, TRUE, Ite, Div, Min, Max
from .. import spec
from ..build import params, construct, TABLE_KEY, parse_form, cls_of


def _is_nan(x):
    return isinstance(x, float) and x != x


def u_table(ctx, kind, form, light=False):
    """Real constructor (validation + flattening loop of that kind) and real _Interp1d/_Interp2d evaluation."""
    P = params(ctx, kind, "X", form, only=())
    tbl = P[TABLE_KEY[kind]]
    if kind == "Converter":  # keep the table acceptable: 0 < eff <= 1
        for row in tbl.z:
            for e in row:
                ctx.assume(And(Gt(e, 0.0), Le(e, 1.0)))
    elif kind in ("LinReg", "PSwitch", "PMux", "RectM"):
        for row in tbl.z:
            for e in row:
                ctx.assume(Ge(e, 0.0))
    ctx.assume(spec.valid(kind, P))
    comp = construct(kind, "X", P)
    n_io, n_vi = parse_form(form)
    xs, ys = [Abs(v) for v in tbl.io], [Abs(v) for v in tbl.vi]
    f = [[Abs(e) for e in row] for row in tbl.z]
    x, y = ctx.real("x"), ctx.real("y")
    ctx.assume(x >= 0)
    ctx.assume(y >= 0)
    val = comp._ipr._interp(x, y)
    ctx.cover("evaluated")
    if _is_nan(val):
        ctx.fail("never-NaN", info={"branch": "nan"})
        return
    ref = tbl.value(x, y)
    ctx.check("value=clamped-grid-interpolant", Eq(val, ref))
    if light:  # symbolic axes (UF): only the clamping cascade / argument order / flattening order
        return
    allf = [e for row in f for e in row]
    lo, hi = allf[0], allf[0]
    for e in allf[1:]:
        lo, hi = Min(lo, e), Max(hi, e)
    ctx.check("within-table-range (never extrapolated)", And(Ge(val, lo), Le(val, hi)))
    # grid exactness, edge linearity, cell envelope: on the (clamped) reference AND therefore on the implementation
    for j in range(n_vi):
        for i in range(n_io):
            at = And(Eq(x, xs[i]), Eq(y, ys[j])) if n_vi > 1 else Eq(x, xs[i])
            ctx.check("exact-at-grid-point", Implies(at, Eq(val, f[j][i])))
    if n_vi == 1:
        for i in range(n_io - 1):
            inside = And(Ge(x, xs[i]), Le(x, xs[i + 1]))
            lin = f[0][i] + Div((f[0][i + 1] - f[0][i]) * (x - xs[i]), xs[i + 1] - xs[i])
            ctx.check("linear-between-points", Implies(inside, Eq(val, lin)))
        ctx.check("clamped-below", Implies(Le(x, xs[0]), Eq(val, f[0][0])))
        ctx.check("clamped-above", Implies(Ge(x, xs[-1]), Eq(val, f[0][-1])))
        return
    for j in range(n_vi - 1):
        for i in range(n_io - 1):
            inside = And(Ge(x, xs[i]), Le(x, xs[i + 1]), Ge(y, ys[j]), Le(y, ys[j + 1]))
            c = [f[j][i], f[j][i + 1], f[j + 1][i], f[j + 1][i + 1]]
            clo = Min(Min(c[0], c[1]), Min(c[2], c[3]))
            chi = Max(Max(c[0], c[1]), Max(c[2], c[3]))
            ctx.check("inside-cell-within-corner-range", Implies(inside, And(Ge(val, clo), Le(val, chi))))
    for j in range(n_vi):
        for i in range(n_io - 1):  # along the grid line y = ys[j]
            on = And(Eq(y, ys[j]), Ge(x, xs[i]), Le(x, xs[i + 1]))
            lin = f[j][i] + Div((f[j][i + 1] - f[j][i]) * (x - xs[i]), xs[i + 1] - xs[i])
            ctx.check("linear-along-io-grid-line", Implies(on, Eq(val, lin)))
    for i in range(n_io):
        for j in range(n_vi - 1):  # along the grid line x = xs[i]
            on = And(Eq(x, xs[i]), Ge(y, ys[j]), Le(y, ys[j + 1]))
            lin = f[j][i] + Div((f[j + 1][i] - f[j][i]) * (y - ys[j]), ys[j + 1] - ys[j])
            ctx.check("linear-along-vi-grid-line", Implies(on, Eq(val, lin)))
    # outside: value at the nearest edge point
    xc, yc = Min(Max(x, xs[0]), xs[-1]), Min(Max(y, ys[0]), ys[-1])
    outside = Or(Lt(x, xs[0]), Gt(x, xs[-1]), Lt(y, ys[0]), Gt(y, ys[-1]))
    edge = comp._ipr._interp(xc, yc)
    if _is_nan(edge):
        ctx.fail("never-NaN", info={"branch": "edge"})
        return
    ctx.check("outside=value-at-nearest-edge-point", Implies(outside, Eq(val, edge)))


def u_twins(ctx, kind, form="ct2x2x2"):
    """Two components of one kind with DIFFERENT tables (same axes), evaluated one after the other at the same query point: each
    returns the value of its OWN table.  The proxies are made hashable (one bucket) for the duration, so a lookup cache keyed on the
    query point compares keys through the solver instead of being invisible (unhashable) to the engine."""
    from .. import symx

    PA = params(ctx, kind, "A", form, only=())
    PB = params(ctx, kind, "B", form, only=())
    for P in (PA, PB):
        for row in P[TABLE_KEY[kind]].z:
            for e in row:
                ctx.assume(And(Gt(e, 0.0), Le(e, 1.0)) if kind == "Converter" else Ge(e, 0.0))
        ctx.assume(spec.valid(kind, P))
    a, b = construct(kind, "A", PA), construct(kind, "B", PB)
    x, y = ctx.real("x"), ctx.real("y")
    ctx.assume(x >= 0)
    ctx.assume(y >= 0)
    old = symx.SymReal.__hash__
    try:
        va = a._ipr._interp(x, y)
        vb = b._ipr._interp(x, y)
        va2 = a._ipr._interp(x, y)
    finally:
        symx.SymReal.__hash__ = old
    ctx.cover("evaluated")
    if _is_nan(va) or _is_nan(vb) or _is_nan(va2):
        ctx.fail("never-NaN", info={"branch": "twins"})
        return
    ctx.check("first-table-own-value", Eq(va, PA[TABLE_KEY[kind]].value(x, y)))
    ctx.check("second-table-own-value", Eq(vb, PB[TABLE_KEY[kind]].value(x, y)))
    ctx.check("first-table-again", Eq(va2, va))


def u_repeat(ctx, kind, form="ct2x2x2"):
    """ONE table evaluated at two different query points, one after the other (and the first one again): every lookup returns the value
    for ITS OWN query point.  A lookup memo keyed too coarsely (rounded / truncated / partial key) hands the second query the first
    one's value; a single evaluation per object can never see that."""
    P = params(ctx, kind, "X", form, only=())
    tbl = P[TABLE_KEY[kind]]
    for row in tbl.z:
        for e in row:
            ctx.assume(And(Gt(e, 0.0), Le(e, 1.0)) if kind == "Converter" else Ge(e, 0.0))
    ctx.assume(spec.valid(kind, P))
    comp = construct(kind, "X", P)
    pts = []
    for n in (1, 2):
        x, y = ctx.real("x%d" % n), ctx.real("y%d" % n)
        ctx.assume(x >= 0)
        ctx.assume(y >= 0)
        pts.append((x, y))
    vals = [comp._ipr._interp(x, y) for x, y in pts + pts[:1]]
    ctx.cover("evaluated")
    if any(_is_nan(v) for v in vals):
        ctx.fail("never-NaN", info={"branch": "repeat"})
        return
    ctx.check("first-query-own-value", Eq(vals[0], tbl.value(*pts[0])))
    ctx.check("second-query-own-value", Eq(vals[1], tbl.value(*pts[1])))
    ctx.check("first-query-again", Eq(vals[2], tbl.value(*pts[0])))


def u_after_plot(ctx, kind, dims=2):
    """The table still evaluates to its tabulated values after System.plot_interp() has drawn it (the plotting code gets the
    interpolator's own arrays).  Concrete table (matplotlib takes concrete data), symbolic query point."""
    import warnings
    import matplotlib

    matplotlib.use("Agg")
    import matplotlib.pyplot as plt
    import sysloss.components as C
    from sysloss.system import System

    key = TABLE_KEY[kind]
    vi, io = ([3.0, 6.0] if dims == 2 else [5.0]), [0.125, 0.5, 1.0]
    z = [[0.5, 0.625, 0.75], [0.25, 0.375, 0.875]][: len(vi)]
    tbl = spec.Table(io, vi, z)
    kw = {"Converter": dict(vo=2.0), "LinReg": dict(vo=2.0, vdrop=0.25), "VLoss": {}, "PSwitch": {}}[kind]
    comp = cls_of(kind)("X", **{**kw, key: {"vi": vi, "io": io, key: z}})
    s = System("plot", C.Source("S", vo=5.0))
    s.add_comp("S", comp=comp)
    s.add_comp("X", comp=C.ILoad("L", ii=0.25))
    x, y = ctx.real("x"), ctx.real("y")
    ctx.assume(x >= 0)
    ctx.assume(y >= 0)
    before = comp._ipr._interp(x, y)
    with warnings.catch_warnings():
        warnings.simplefilter("ignore")
        s.plot_interp("X")
        s.plot_interp("X", plot3d=True) if dims == 2 else None
        plt.close("all")
    after = comp._ipr._interp(x, y)
    ctx.cover("evaluated")
    if _is_nan(before) or _is_nan(after):
        ctx.fail("never-NaN", info={"branch": "after-plot"})
        return
    ctx.check("value-before-plot", Eq(before, tbl.value(x, y)))
    ctx.check("value-after-plot", Eq(after, tbl.value(x, y)))


def u_flat(ctx, kind, form):
    """A table whose entries all equal c behaves as the constant c in every law of that kind."""
    c = ctx.real("c")
    n_io, n_vi = parse_form(form)
    P = params(ctx, kind, "X", form, only=())
    tbl = P[TABLE_KEY[kind]]
    tbl.z = [[c for _ in range(n_io)] for _ in range(n_vi)]
    Pc = dict(P)
    Pc[TABLE_KEY[kind]] = c
    ctx.assume(spec.valid(kind, Pc))
    if TABLE_KEY[kind] == "ig":
        ctx.assume(c >= 0)  # a negative tabulated ground current is rejected (C11), a negative constant is a magnitude
    if kind in ("RectD",):
        ctx.assume(Not(IsZero(c)))
    try:
        a, b = construct(kind, "X", P), construct(kind, "X", Pc)
    except ValueError:
        ctx.fail("flat-table-accepted-like-constant")
        return
    vi, io = ctx.real("vi"), ctx.real("io")
    ctx.assume(io >= 0)
    ctx.cover("evaluated")
    ctx.check("flat-table-value=constant", Eq(a._ipr._interp(Abs(io), Abs(vi)), b._ipr._interp(Abs(io), Abs(vi))))
    outs = []
    pst = {"off": [False]}
    for comp in (a, b):
        try:
            vo, _ = comp._solv_outp_volt([vi], 0.0, io, "", {} if kind in ("RectD", "RectM", "VLoss") else [], pst)
        except ValueError:
            vo = None
        ii = comp._solv_inp_curr([vi], 0.0, io, "", {} if kind in ("RectD", "RectM", "VLoss") else [], pst)
        outs.append((vo, ii))
    (vo_a, ii_a), (vo_b, ii_b) = outs
    ctx.check("same-raise-behaviour", cond((vo_a is None) == (vo_b is None)))
    if vo_a is not None and vo_b is not None:
        ctx.check("same-vout", Eq(vo_a, vo_b))
        pa = a._solv_pwr_loss(vi, vo_a, ii_a, io, 25.0, "", [])
        pb = b._solv_pwr_loss(vi, vo_b, ii_b, io, 25.0, "", [])
        for k, nm in enumerate(("power", "loss", "eff", "tr", "tp")):
            ctx.check("same-" + nm, Eq(pa[k], pb[k]))
    ctx.check("same-iin", Eq(ii_a, ii_b))


def validate_shims(ctx, seed=0):
    """Translator validation (concrete): the np.interp and LinearNDInterpolator contract models against the real
    numpy / scipy on random rectilinear tables.  A disagreement is a harness error, never a property verdict."""
    import random
    import numpy as np
    from scipy.interpolate import LinearNDInterpolator
    from ..shims import NumpyShim, GridInterp
    from ..symx import SymReal, lift
    import z3

    rnd = random.Random(1234 + seed)
    npx = NumpyShim([])
    bad = 0
    n = 0
    for _ in range(60):
        k = rnd.randint(1, 4)
        xp = sorted(rnd.uniform(0, 5) for _ in range(k))
        if any(abs(a - b) < 1e-3 for a, b in zip(xp, xp[1:])):
            continue
        fp = [rnd.uniform(0, 3) for _ in range(k)]
        for _ in range(8):
            x = rnd.choice([rnd.uniform(-1, 6), rnd.choice(xp)])
            t = npx.interp(SymReal(lift(x)), [SymReal(lift(v)) for v in xp], [SymReal(lift(v)) for v in fp])
            got = z3.simplify(t.t)
            got = float(got.numerator_as_long()) / float(got.denominator_as_long())
            n += 1
            if abs(got - float(np.interp(x, xp, fp))) > 1e-9:
                bad += 1
    for _ in range(40):
        nx, ny = rnd.randint(2, 4), rnd.randint(2, 3)
        xs = sorted(rnd.uniform(0, 5) for _ in range(nx))
        ys = sorted(rnd.uniform(0.5, 20) for _ in range(ny))
        if any(abs(a - b) < 1e-2 for a, b in zip(xs, xs[1:])) or any(abs(a - b) < 1e-2 for a, b in zip(ys, ys[1:])):
            continue
        pts = [(x, y) for y in ys for x in xs]
        vals = [rnd.uniform(0, 2) for _ in pts]
        real = LinearNDInterpolator(pts, vals)
        g = GridInterp([(SymReal(lift(a)), SymReal(lift(b))) for a, b in pts], [SymReal(lift(v)) for v in vals])
        for _ in range(10):
            x, y = rnd.uniform(xs[0], xs[-1]), rnd.uniform(ys[0], ys[-1])
            r = float(real([x], [y])[0])
            t = g.inside_value(SymReal(lift(x)), SymReal(lift(y))).t
            # the model leaves the diagonal free: the real value must equal one of the two
            s = z3.Solver()
            s.add(z3.Not(z3.And(t >= r - 1e-7, t <= r + 1e-7)))
            n += 1
            if r != r:
                bad += 1
                continue
            # exists a diagonal assignment giving r  <=>  not (forall diag: t != r)
            s2 = z3.Solver()
            s2.add(z3.And(t >= r - 1e-7, t <= r + 1e-7))
            if s2.check() != z3.sat:
                bad += 1
    ctx.cover("validated")
    ctx.note("shim-differential-queries=%d" % n)
    if bad:
        raise AssertionError("contract model disagrees with numpy/scipy on %d of %d queries" % (bad, n))


META = {
    "explanation": "Real constructors (table validation + the six copies of the flattening loop) and real _Interp1d/_Interp2d "
                   "(including the manual clamping cascade) executed on proxies with symbolic entries, symbolic or concrete axes and a "
                   "symbolic query point; every clause of the property is a solver query.  np.interp / LinearNDInterpolator are "
                   "contract models (DESIGN 1.4) that are differentially validated against numpy/scipy on every run.",
    "functions": ["components._check_interp", "components._Interp1d.__init__/_interp", "components._Interp2d.__init__/_interp",
                  "table flattening in VLoss/Converter/LinReg/PSwitch/PMux/Rectifier.__init__"],
    "bounds": "1-D: <= 3 (quick) / 4 (thorough) io points, symbolic axes; 2-D: 2x2 (quick) and 3x2 (thorough) with concrete axes (exact NRA), "
              "also written with negative vi rows (descending magnitude); 2x2, 3x2, 2x3 symbolic axes (UF) for the clamping cascade; two "
              "components with different tables at one query point (u_twins); query point any x,y >= 0.  3x3 exact tables are NOT claimed "
              "(z3 answers unknown or exceeds 20 min per instance)",
    "outside": "Qhull itself (contract model), ill-conditioned grids, vi rows in neither increasing nor decreasing order, binary64 hull-boundary effects",
    "assumptions": ["floats as reals", "io axis >= 0 strictly increasing, vi rows > 0 strictly increasing",
                    "callers pass |io|, |vi| (checked by C01 for every law)"],
}


def instances(tier):
    out = [Instance("C10", "c10:validate_shims", {}, cover=["validated"])]
    kinds = list(TABLE_KEY)
    for kind in kinds:
        forms = ["t1x2", "t1x3"] if tier == "quick" else ["t1x1", "t1x2", "t1x3", "t1x4", "ct2x2x2"]
        if tier == "quick" and kind in ("VLoss", "PSwitch"):
            forms.append("ct2x2x2")
        # a table written for a negative rail: vi rows negative (descending in magnitude); same function of (|io|, |vi|)
        forms.append("nct2x2x2" if tier == "quick" or kind not in ("VLoss", "PSwitch", "RectM") else "nct2x3x2")
        if tier == "thorough" and kind in ("VLoss", "PSwitch", "RectM"):
            forms += ["ct2x3x2"]  # (3x3 exact tables: z3 returns unknown / exceeds 20 min per instance - not claimed)
        for form in forms:
            out.append(Instance("C10", "c10:u_table", dict(kind=kind, form=form), cover=["evaluated"], weight=10 if "t2" in form else 1,
                                **({"time_limit": 3600} if tier == "thorough" else {})))
        for form in (["t2x2x2", "t2x3x2"] if tier == "quick" else ["t2x2x2", "t2x3x2", "t2x2x3"]):
            out.append(Instance("C10", "c10:u_table", dict(kind=kind, form=form, light=True), name="c10:u_table/UF-light/%s/%s" % (kind, form),
                                uf=True, cover=["evaluated"], weight=10))
        for form in ("t1x2", "ct2x2x2"):
            out.append(Instance("C10", "c10:u_flat", dict(kind=kind, form=form), cover=["evaluated"], weight=5))
    for kind in ("PSwitch", "Converter"):
        out.append(Instance("C10", "c10:u_twins", dict(kind=kind), cover=["evaluated"], weight=10))
        for form in ("t1x2", "ct2x2x2"):
            out.append(Instance("C10", "c10:u_repeat", dict(kind=kind, form=form), name="c10:u_repeat/%s/%s" % (kind, form), cover=["evaluated"], weight=10))
    # "the sign of the lookup arguments is ignored": every law of every kind with a table, for vi of either sign
    for kind in kinds:
        if kind == "PMux":
            continue
        for form in ("t1x2", "ct2x2x2"):
            out.append(Instance("C10", "c01:u_law", dict(kind=kind, form=form, phase="none", off="absent"), cover=["iin-evaluated"],
                                weight=5 if "t2" in form else 1))
    for kind, dims in (("Converter", 1), ("Converter", 2), ("VLoss", 2), ("LinReg", 1)):
        out.append(Instance("C10", "c10:u_after_plot", dict(kind=kind, dims=dims), name="c10:u_after_plot/%s/%dd" % (kind, dims), cover=["evaluated"], weight=3))
    # ... and the mux: its table is looked up at the voltage of the SELECTED input (first input live / dead)
    for form in ("t1x2", "ct2x2x2", "opaque"):
        for offs in ("00", "10"):
            out.append(Instance("C10", "c01:u_mux", dict(k=2, form=form, phase="none", rs_list=True, offs=offs), weight=5))
    return out, META
