"""C06 -- load phases: each phase is solved with each component's phase behaviour."""
from ..core import Instance
from ..ops import Eq, And, Or, Not, Implies, Iff, IsZero, cond, TRUE
from .. import spec, sysh, shapes
from ..shapes import S, N
from .c01 import META as M1
from .sys_common import oracle_c01, oracle_c04


def s_phases(ctx, shape, phase):
    """Per phase: the table of that phase equals the steady state of the system specialised to the phase
    (law oracle of C01 with phase activity / per-phase load values, dead-rail oracle of C04)."""
    sysobj, info, durations = sysh.build_system(ctx, shape)
    try:
        df = sysh.run_solve(ctx, sysobj, shape, phase=phase)
    except sysh.Unstable:
        ctx.note("unstable")
        return
    rows = sysh.table_rows(df)
    ctx.cover("solved")
    ctx.check("only-rows-of-requested-phase", cond(set(rows) <= {phase}))
    oracle_c01(ctx, shape, info, rows, durations, {}, df, sysobj)
    oracle_c04(ctx, shape, info, rows, durations, {}, df, sysobj)


def s_consistency(ctx, shape, limited=None):
    """solve(phase=p) == rows of p in the all-phase result (cell by cell, INCLUDING Domain and Warnings - nothing may be
    carried from one phase of an all-phase solve into the next); unknown phase rejected."""
    W = True
    if limited:
        from .c09 import mk_limits

        shape = {**shape, "nodes": [dict(n) for n in shape["nodes"]]}
        for nd in shape["nodes"]:
            if nd["name"] in limited:
                nd["limits"] = mk_limits(ctx, nd["name"], limited[nd["name"]])
        W = "bounded"
    sysobj, info, durations = sysh.build_system(ctx, shape)
    try:
        df_all = sysh.run_solve(ctx, sysobj, shape, stub_warns=W)
    except sysh.Unstable:
        ctx.note("unstable")
        return
    ctx.cover("solved")
    all_rows = sysh.table_rows(df_all)
    ctx.check("every-phase-reported", cond(set(durations) <= set(all_rows)))
    ctx.check("only-defined-phases-reported", cond(set(all_rows) - {""} <= set(durations)), info={"reported": sorted(all_rows)})
    oracle_c01(ctx, shape, info, all_rows, durations, {}, df_all, sysobj)
    for p in durations:
        try:
            df_p = sysh.run_solve(ctx, sysobj, shape, phase=p, stub_warns=W)
        except sysh.Unstable:
            ctx.fail("single-phase-solve-raises-where-all-phase-did-not", info={"phase": p})
            continue
        one = sysh.table_rows(df_p)
        ctx.check("single-phase-has-only-that-phase", cond(set(one) == {p}))
        ctx.check("same-row-set", cond(set(one.get(p, {})) == set(all_rows[p])), info={"phase": p})
        for name, r in one.get(p, {}).items():
            ra = all_rows[p].get(name)
            if ra is None:
                continue
            for k, v in r.items():
                if k.startswith("_") or k not in ra:
                    continue
                a = ra[k]
                if isinstance(v, str) or isinstance(a, str):
                    ctx.check("cell-equal", cond(v == a), info={"row": name, "col": k, "phase": p})
                else:
                    ctx.check("cell-equal", Eq(v, a), info={"row": name, "col": k, "phase": p})
    for bad in ("nope", "N/A"):
        try:
            sysobj.solve(phase=bad)
            ctx.fail("unknown-phase-rejected", info={"phase": bad})
        except ValueError:
            ctx.check("unknown-phase-rejected", TRUE)


META = dict(M1)
META.update({
    "explanation": "Real set_sys_phases / set_comp_phases / solve(phase=...) with concrete phase configurations and symbolic durations, "
                   "parameters and per-phase load values: (1) per phase, the returned rows satisfy the law oracle of C01 evaluated with the "
                   "spec's phase behaviour (load value for the phase or sleep value, activity lists) and the dead-rail oracle of C04; "
                   "(2) solve(phase=p) equals the rows of p in the all-phase table cell by cell; unknown phase => ValueError.",
    "functions": ["system.System.set_sys_phases/set_comp_phases/_set_phase_lkup/_sys_init/solve 911-924",
                  "components.*._solv_* phase branches, _get_state/_get_outp_voltage/_get_inp_current"],
    "bounds": "2 phases (3 in one thorough shape); shape catalogue below; all-phase runs on <= 4-node shapes (paths multiply across phases)",
})


def instances(tier):
    out = []
    ps = shapes.phase_shapes()
    for sid, sh in ps.items():
        for ph in sh["phases"]:
            out.append(Instance("C06", "c06:s_phases", dict(shape=sh, phase=ph), name="S/%s@%s" % (sid, ph), uf=True, cover=["solved"], weight=20))
    ph = ["a", "b"]
    small = {
        "cons-src-pload": S(N("S", "Source"), N("L", "PLoad", "S", phases=["a"]), phases=ph),
        "cons-conv": S(N("S", "Source", only=()), N("C", "Converter", "S", phases=["b"], only=("iis", "iq")), N("L", "ILoad", "C", phases=["a", "b"], only=()), phases=ph),
        "cons-src-phased": S(N("S", "Source", phases=["a"], only=()), N("G", "LinReg", "S", only=("vdrop",)), N("L", "RLoad", "G", phases=["b"]), phases=ph),
        "cons-nophaseconf": S(N("S", "Source"), N("W", "PSwitch", "S", only=("rs",)), N("L", "PLoad", "W", only=()), phases=ph),
    }
    # configuration histories: an earlier load table / activity list / schedule that a later call replaced
    small["cons-load-reconfigured"] = S(N("S", "Source", only=()), N("L", "PLoad", "S", phases=["a"], prior_phases=["a", "b"]),
                                        N("L2", "ILoad", "S", phases=["b"], prior_phases=["a"], only=("iis",)), phases=ph)
    small["cons-list-reconfigured"] = S(N("S", "Source", only=()), N("C", "Converter", "S", phases=["a"], prior_phases=["a", "b"], only=("iis",)),
                                        N("L", "RLoad", "C", phases=["a", "b"], prior_phases=["b"], only=()), phases=ph)
    small["cons-schedule-redefined"] = S(N("S", "Source", only=()), N("L", "PLoad", "S", phases=["a"]), phases=ph, prior_sys_phases=["a", "t", "b"])
    for sid, sh in small.items():
        out.append(Instance("C06", "c06:s_consistency", dict(shape=sh), name="S/" + sid, uf=True, cover=["solved"], weight=30))
    rich = {
        "cons-two-src-mux": (S(N("S1", "Source", phases=["a"], only=()), N("S2", "Source", only=()), N("M", "PMux", ["S1", "S2"], only=("rs",)),
                               N("L", "ILoad", "M", phases=["a", "b"], only=()), phases=ph), {"S2": ["io"], "L": ["vi"]}),
        "cons-two-src-limits": (S(N("S1", "Source", only=()), N("L1", "ILoad", "S1", phases=["a", "b"], only=()), N("S2", "Source", only=()),
                                  N("L2", "RLoad", "S2", phases=["b"], only=()), phases=ph), {"S1": ["io"], "L2": ["ii"]}),
    }
    for sid, (sh, lim) in rich.items():
        out.append(Instance("C06", "c06:s_consistency", dict(shape=sh, limited=lim), name="S/" + sid, uf=True, cover=["solved"], weight=40))
    for sid, sh in shapes.real_loop_phase_shapes().items():
        for ph in sh["phases"]:
            out.append(Instance("C06", "sys_common:s_real_loop", dict(shape=sh, oracle="c01", opts={"phase": ph}), name="RL/%s@%s" % (sid, ph),
                                uf=True, cover=["solved"], weight=20))
    for kind in list(spec.LOADS) + list(spec.PHASED_LIST):
        if kind in ("PMux", "Source"):  # mux: C05; negative-source law is a recorded finding of C01
            continue
        for ph_mode in ("listed", "unlisted"):
            for off in ("absent", "true"):
                out.append(Instance("C06", "c01:u_law", dict(kind=kind, form="const", phase=ph_mode, off=off), cover=["iin-evaluated"]))
    if tier == "thorough":
        import itertools

        ph3 = ["a", "b", "c"]
        subsets = [list(c) for r in (1, 2) for c in itertools.combinations(ph3, r)]
        for i, (sc, sl) in enumerate(itertools.product(subsets, subsets)):
            if i % 3:
                continue  # every third combination of (converter activity, load table) keeps the run below ten minutes
            shp = S(N("S", "Source", only=()), N("C", "Converter", "S", phases=sc, only=("iis", "iq")), N("L", "PLoad", "C", phases=sl, only=("pwrs",)),
                    N("L2", "ILoad", "S", phases=sl, only=("iis",)), phases=ph3)
            for p in ph3:
                out.append(Instance("C06", "c06:s_phases", dict(shape=shp, phase=p), name="S/3ph/%s/%s@%s" % ("".join(sc), "".join(sl), p), uf=True,
                                    cover=["solved"], weight=5))
        sh3 = S(N("S", "Source", only=()), N("C", "Converter", "S", phases=["a", "c"], only=("iis",)), N("L", "PLoad", "C", phases=["a", "b"]),
                phases=["a", "b", "c"])
        for p in sh3["phases"]:
            out.append(Instance("C06", "c06:s_phases", dict(shape=sh3, phase=p), name="S/three-phases@" + p, uf=True, cover=["solved"]))
    return out, META
