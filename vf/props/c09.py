"""C09 -- warnings appear exactly when an applicable limit is exceeded."""
from ..core import Instance
from ..ops import Eq, And, Or, Not, Implies, Iff, IsZero, Gt, Ge, Lt, Le, Abs, cond, TRUE, FALSE
from .. import spec, sysh, shapes
from ..shapes import S, N
from ..build import params, construct, cls_of
from .c01 import phase_args

KEYS = ["vi", "vo", "vd", "ii", "io", "pi", "po", "pl", "tr", "tp"]
DEFAULTS = {k: [0.0, 1.0e6] for k in KEYS}
DEFAULTS["tp"] = [-1.0e6, 1.0e6]


def exceeded(key, q, lim):
    lo, hi = lim
    if key == "tp":
        return Or(Gt(q, hi), Lt(q, lo))
    return Or(Gt(Abs(q), Abs(hi)), Lt(Abs(q), Abs(lo)))


def quantities(vi, vo, ii, io, pwr):
    p, l, _, tr, tp = pwr
    return {"vi": vi, "vo": vo, "vd": Abs(vi) - Abs(vo), "ii": ii, "io": io, "pi": p, "po": p - l, "pl": l, "tr": tr, "tp": tp}


def mk_limits(ctx, name, keys):
    lim = {}
    for k in keys:
        lim[k] = [ctx.real("%s.lim.%s.min" % (name, k)), ctx.real("%s.lim.%s.max" % (name, k))]
    return lim


def u_warn(ctx, kind, keys, phase="none"):
    P = params(ctx, kind, "X", "const")
    ctx.assume(spec.valid(kind, P))
    lim = mk_limits(ctx, "X", keys)
    comp = construct(kind, "X", P, limits=lim)
    vi, vo, ii, io, ta = (ctx.real(k) for k in ("vi", "vo", "ii", "io", "ta"))
    ctx.assume(ii >= 0)
    ctx.assume(io >= 0)
    ph, conf, active, lval = phase_args(ctx, kind, P, phase)
    pw = comp._solv_pwr_loss(vi, vo, ii, io, ta, ph, conf)
    q = quantities(vi, vo, ii, io, pw)
    docs = spec.documented_limits(cls_of(kind))
    for k in KEYS:  # quantities without a supplied limit stay inside the documented default range (stated bound)
        if k not in keys and k in docs:
            ctx.assume(Not(exceeded(k, q[k], DEFAULTS[k])))
    w = comp._solv_get_warns(vi, vo, ii, io, ta, ph, conf)
    got = set(w.split())
    ctx.cover("evaluated")
    silent = phase == "unlisted" and (kind in spec.LOADS or kind in ("Converter", "LinReg", "PSwitch", "PMux"))
    for k in KEYS:
        if silent:
            ctx.check("phase-not-listed=>no-warning", cond(k not in got), info={"key": k})
            continue
        if k not in docs:
            ctx.check("inapplicable-limit-never-flagged", cond(k not in got), info={"key": k, "kind": kind})
            continue
        want = exceeded(k, q[k], lim.get(k, DEFAULTS[k]))
        ctx.check("flag<=>limit-exceeded", Iff(cond(k in got), want), info={"key": k, "kind": kind})
    extra = got - set(KEYS)
    ctx.check("only-limit-names-in-cell", cond(not extra))


def u_defaults(ctx, kind):
    """Limits not supplied take the documented defaults [0, 1e6] (tp: [-1e6, 1e6])."""
    P = params(ctx, kind, "X", "const")
    ctx.assume(spec.valid(kind, P))
    comp = construct(kind, "X", P)
    vi, vo, ii, io, ta = (ctx.real(k) for k in ("vi", "vo", "ii", "io", "ta"))
    ctx.assume(ii >= 0)
    ctx.assume(io >= 0)
    pw = comp._solv_pwr_loss(vi, vo, ii, io, ta, "", {} if kind in spec.LOADS or kind == "Source" else [])
    q = quantities(vi, vo, ii, io, pw)
    docs = spec.documented_limits(cls_of(kind))
    k0 = ctx.choice("which", len(docs))
    for j, k in enumerate(docs):
        if j != k0:
            ctx.assume(Not(exceeded(k, q[k], DEFAULTS[k])))
    w = comp._solv_get_warns(vi, vo, ii, io, ta, "", {} if kind in spec.LOADS or kind == "Source" else [])
    got = set(w.split())
    ctx.cover("evaluated")
    k = docs[k0]
    ctx.check("default-limit", Iff(cond(k in got), exceeded(k, q[k], DEFAULTS[k])), info={"key": k, "kind": kind})
    ctx.check("only-that-key", cond(got <= {k}))


def s_rollup(ctx, shape, limited, replaced=False):
    """System level: real solve() with the real _solv_get_warns; per-row cell and Subsystem / total roll-up.
    ``replaced``: the limited components first carry OTHER (symbolic) limits, the system is analysed, and they are then replaced under
    their own names (change_comp) by components with the limits the oracle knows - warnings must follow the components now in the system."""
    shape = {"nodes": [dict(n) for n in shape["nodes"]], "phases": shape.get("phases")}
    lims = {}
    for nd in shape["nodes"]:
        if nd["name"] in limited:
            lims[nd["name"]] = mk_limits(ctx, nd["name"], limited[nd["name"]])
            nd["limits"] = mk_limits(ctx, nd["name"] + ".old", limited[nd["name"]]) if replaced else lims[nd["name"]]
    sysobj, info, durations = sysh.build_system(ctx, shape)
    import sysloss.components as C
    if replaced:
        try:
            sysh.run_solve(ctx, sysobj, shape, stub_warns="bounded")
        except sysh.Unstable:
            ctx.note("unstable")
            return
        if replaced == "subtree":
            # every non-source component is deleted (sources keep their place) and the same tree is built again: the new components land
            # on the node indices the old ones had
            from ..sysh import node_parents as node_parents_of
            tops = [nd["name"] for nd in shape["nodes"] if nd["kind"] != "Source" and all(info[p]["kind"] == "Source" for p in node_parents_of(nd))]
            for nm in tops:
                if nm in sysobj._g.attrs["nodes"]:
                    sysobj.del_comp(nm, del_childs=True)
            for nd in shape["nodes"]:
                if nd["kind"] == "Source":
                    continue
                ps = node_parents_of(nd)
                comp = construct(nd["kind"], nd["name"], info[nd["name"]]["P"], limits=lims.get(nd["name"]))
                kw = {"rail": nd["rail"]} if nd.get("rail") else {}
                sysobj.add_comp(ps if nd["kind"] == "PMux" else ps[0], comp=comp, **kw)
                conf = info[nd["name"]].get("conf")
                if conf:
                    sysobj.set_comp_phases(nd["name"], conf)
        for nd in shape["nodes"] if replaced is True else ():
            if nd["name"] in limited:
                kw = {"rail": nd["rail"]} if nd.get("rail") else {}
                if nd.get("group"):
                    kw["group"] = nd["group"]
                conf = sysobj._g.attrs["phase_conf"].get(nd["name"])
                sysobj.change_comp(nd["name"], comp=construct(nd["kind"], nd["name"], info[nd["name"]]["P"], limits=lims[nd["name"]]), **kw)
                if conf:  # change_comp resets the phase configuration of the replaced component
                    sysobj.set_comp_phases(nd["name"], conf)
        ctx.cover("replaced")

    orig = C._Component._solv_get_warns

    def bounded(self, vi, vo, ii, io, ta, phase, phase_conf, *xa, **xk):
        # stated bound: quantities whose limit was not supplied stay inside the documented default range
        # (the default comparisons themselves are decided per kind by u_defaults)
        if ctx.symbolic:
            pw = self._solv_pwr_loss(vi, vo, ii, io, ta, phase, phase_conf)
            q = quantities(vi, vo, ii, io, pw)
            for k in self._get_limits():
                if k not in limited.get(self._params["name"], ()):
                    ctx.assume(Not(exceeded(k, q[k], DEFAULTS[k])))
        return orig(self, vi, vo, ii, io, ta, phase, phase_conf, *xa, **xk)

    C._Component._solv_get_warns = bounded
    try:
        df = sysh.run_solve(ctx, sysobj, shape, stub_warns=False)
    except sysh.Unstable:
        ctx.note("unstable")
        return
    finally:
        C._Component._solv_get_warns = orig
    ctx.cover("solved")
    allrows = sysh.table_rows(df)
    for ph in (list(durations) or [""]):
        _rollup_phase(ctx, shape, info, allrows[ph], limited, lims, ph)


def _rollup_phase(ctx, shape, info, rows, limited, lims, ph):
    from .sys_common import domain_alts

    sources = [n["name"] for n in shape["nodes"] if n["kind"] == "Source"]
    any_w = False
    by_src = {s: [] for s in sources}
    for nd in shape["nodes"]:
        name, kind = nd["name"], nd["kind"]
        r = rows[name]
        got = set(str(r["warn"]).split())
        any_w = any_w or bool(got)
        docs = spec.documented_limits(cls_of(kind))
        tr = r.get("tr", 0.0)
        tp = r.get("tp", 25.0)
        if kind == "Source":
            tr, tp = 0.0, 0.0
        if "tr" in r and isinstance(r["tr"], str):
            tr, tp = 0.0, 0.0
        silent = bool(ph) and info[name]["conf"] and ph not in info[name]["conf"] and (kind in spec.LOADS or kind in ("Converter", "LinReg", "PSwitch", "PMux"))
        if silent:
            ctx.check("phase-not-listed=>no-warning", cond(not got), info={"row": name, "phase": ph})
            for c, s in domain_alts(info, name, rows):
                by_src[s].append((c, bool(got)))
            continue
        q = {"vi": r["vin"], "vo": r["vout"], "vd": Abs(r["vin"]) - Abs(r["vout"]), "ii": r["iin"], "io": r["iout"],
             "pi": r["pwr"], "po": r["pwr"] - r["loss"], "pl": r["loss"], "tr": tr, "tp": tp}
        if kind in spec.LOADS:
            q["io"] = 0.0
        for k in KEYS:
            if k not in docs:
                ctx.check("inapplicable-limit-never-flagged", cond(k not in got), info={"row": name, "key": k})
            elif k in limited.get(name, ()):
                ctx.check("flag<=>limit-exceeded", Iff(cond(k in got), exceeded(k, q[k], lims[name][k])), info={"row": name, "key": k})
            else:
                ctx.check("default-limit", Iff(cond(k in got), exceeded(k, q[k], DEFAULTS[k])), info={"row": name, "key": k})
        for c, s in domain_alts(info, name, rows):
            by_src[s].append((c, bool(got)))
    if len(sources) > 1:
        for s in sources:
            cell = rows["Subsystem " + s]["warn"]
            want = Or(*[And(c, cond(w)) for c, w in by_src[s]])
            ctx.check("subsystem-yes<=>member-has-warning", Iff(cond(cell == "Yes"), want), info={"row": "Subsystem " + s, "phase": ph})
            ctx.check("subsystem-cell-is-yes-or-empty", cond(cell in ("Yes", "")))
    tot = rows["System total"]["warn"]
    ctx.check("total-yes<=>any-warning", cond((tot == "Yes") == any_w), info={"phase": ph})
    if any_w:
        ctx.cover("some-warning")


META = {
    "explanation": "Real _solv_get_warns/_get_warns/_get_limits/_check_limits executed on proxies with symbolic quantities and symbolic "
                   "[min,max] for the supplied keys; the returned cell is a concrete string on each path and 'key present <=> key documented as "
                   "applicable (parsed from the class docstring) and quantity outside the limit (magnitude; tp signed)' is a solver query per "
                   "key.  System level: real solve() with the real warning code on two-source shapes; per-row cells and the Subsystem / "
                   "System total roll-up.",
    "functions": ["components._Component._solv_get_warns", "components._get_warns", "components.*._get_limits", "components._check_limits",
                  "components.*._solv_pwr_loss", "system.System.solve 992-998, 1024-1027, 1048-1051"],
    "bounds": "supplied limit keys one at a time (quick) / two at a time (thorough) per kind, all 12 kind classes, 3 phase modes; quantities "
              "without a supplied limit assumed inside the default range [0,1e6]; system roll-up: 3 shapes, <= 2 limited components",
    "outside": ">= 3 simultaneously supplied keys; > 2 limited components per system; binary64",
    "assumptions": ["floats as reals", "ii, io >= 0", "quantities without supplied limit within documented defaults"],
}


def instances(tier):
    import itertools

    out = []
    for kind in spec.KINDS:
        docs_n = KEYS
        for k in KEYS:
            out.append(Instance("C09", "c09:u_warn", dict(kind=kind, keys=[k], phase="none"), cover=["evaluated"]))
        phs = ("listed", "unlisted") if (kind in spec.PHASED_LIST or kind in spec.LOADS) else ()
        for ph in phs:
            for k in (("vi", "pl") if tier == "quick" else KEYS):
                out.append(Instance("C09", "c09:u_warn", dict(kind=kind, keys=[k], phase=ph), cover=["evaluated"]))
        if tier == "thorough":
            for a, b in itertools.combinations(KEYS, 2):
                out.append(Instance("C09", "c09:u_warn", dict(kind=kind, keys=[a, b], phase="none"), cover=["evaluated"], weight=3,
                                    time_limit=3000))
        out.append(Instance("C09", "c09:u_defaults", dict(kind=kind), cover=["evaluated"], weight=3))
    two = S(N("S1", "Source"), N("C", "Converter", "S1", only=()), N("L1", "PLoad", "C", only=()), N("S2", "Source", only=()), N("L2", "ILoad", "S2", only=()))
    out.append(Instance("C09", "c09:s_rollup", dict(shape=two, limited={"C": ["io"], "L2": ["vi"]}), name="S/two-src/io+vi", uf=True,
                        cover=["solved", "some-warning"], weight=30))
    out.append(Instance("C09", "c09:s_rollup", dict(shape=two, limited={"S1": ["pl"], "L1": ["ii"]}), name="S/two-src/pl+ii", uf=True,
                        cover=["solved", "some-warning"], weight=30))
    mux = S(N("S1", "Source", pol="nonneg", only=()), N("S2", "Source", only=()), N("M", "PMux", ["S1", "S2"], only=("rs",)), N("L", "RLoad", "M", only=()))
    out.append(Instance("C09", "c09:s_rollup", dict(shape=mux, limited={"M": ["vd"], "L": ["pi"]}), name="S/mux/vd+pi", uf=True,
                        cover=["solved", "some-warning"], weight=30))
    phs = S(N("S1", "Source", only=()), N("L1", "ILoad", "S1", only=(), phases=["a", "b"]), N("S2", "Source", only=()), N("L2", "RLoad", "S2", only=()),
            phases=["a", "b"])
    out.append(Instance("C09", "c09:s_rollup", dict(shape=phs, limited={"S1": ["io"], "L2": ["ii"]}), name="S/two-src-phases/io+ii", uf=True,
                        cover=["solved", "some-warning"], weight=40))
    one = S(N("S", "Source"), N("G", "LinReg", "S", only=("vdrop",)), N("L", "RLoad", "G", only=()))
    out.append(Instance("C09", "c09:s_rollup", dict(shape=one, limited={"G": ["vd", "tp"]}), name="S/one-src/vd+tp", uf=True,
                        cover=["solved", "some-warning"], weight=30))
    # limits follow the components NOW in the system: analysed with other limits first, then replaced under the same names
    out.append(Instance("C09", "c09:s_rollup", dict(shape=two, limited={"C": ["io"], "L2": ["vi"]}, replaced=True), name="S/replaced/two-src/io+vi", uf=True,
                        cover=["solved", "some-warning", "replaced"], weight=40))
    out.append(Instance("C09", "c09:s_rollup", dict(shape=one, limited={"G": ["vd"], "L": ["pi"]}, replaced=True), name="S/replaced/one-src/vd+pi", uf=True,
                        cover=["solved", "some-warning", "replaced"], weight=40))
    out.append(Instance("C09", "c09:s_rollup", dict(shape=one, limited={"G": ["vd"], "L": ["pi"]}, replaced="subtree"), name="S/rebuilt-subtree/one-src/vd+pi", uf=True,
                        cover=["solved", "some-warning", "replaced"], weight=40))
    return out, META
