"""C14 / C15 / C16 -- edit histories (shared harness)."""
import copy

from ..core import Instance
from ..ops import cond, TRUE
from .. import hist, snap, spec

EDIT_OPS = ["add_source", "add_comp", "change_comp", "del_comp"]
ALL_OPS = EDIT_OPS + ["set_sys_phases", "set_comp_phases"]


def _try(sysobj, op):
    """-> None when accepted, the exception when the call raised."""
    import warnings

    with warnings.catch_warnings():
        warnings.simplefilter("ignore")
        try:
            hist.call(sysobj, op)
            return None
        except Exception as e:  # noqa: BLE001 - any exception is a rejection to be examined
            return e


def _opinfo(op):
    return {k: v for k, v in op.items() if k not in ("variant",)}


def h_wellformed(ctx, base, nsym=1, full=False, first_ops=None):
    """C14: after every call of the history (accepted or rejected) the tree is well-formed; an accepted call was
    acceptable by the documented rules."""
    hist.FULL[0] = full
    sysobj, m = hist.replay_base(hist.BASES[base])
    ctx.check("base-history-well-formed", cond(not hist.well_formed(sysobj)), info={"violated": hist.well_formed(sysobj)})
    for k in range(nsym):
        op = hist.symbolic_call(ctx, m, "c%d" % k, (first_ops if (k == 0 and first_ops and nsym > 1) else EDIT_OPS))
        exc = _try(sysobj, op)
        bad = hist.well_formed(sysobj)
        outcome = "rejected" if exc is not None else "accepted"
        ctx.cover(outcome)
        for clause in bad:
            ctx.check("well-formed-after-%s-call" % outcome, cond(False), key="illformed/%s/%s/%s" % (op["op"], outcome, clause),
                      info={"call": _opinfo(op), "violated": bad, "exception": repr(exc)[:120] if exc else None})
        if not bad:
            ctx.check("well-formed-after-%s-call" % outcome, TRUE)
        if exc is not None:
            if not isinstance(exc, ValueError):
                ctx.check("rejection-is-ValueError", cond(False), key="rejected-with/%s/%s" % (op["op"], type(exc).__name__),
                          info={"call": _opinfo(op), "exception": repr(exc)[:160]})
            return
        # accepted: keep the model in step (a call the model cannot follow was not acceptable by the documented rules)
        try:
            m.apply(op)
        except Exception as e:  # noqa: BLE001
            ctx.check("accepted-call-is-acceptable", cond(False), key="accepted-unacceptable/%s" % op["op"],
                      info={"call": _opinfo(op), "model_error": repr(e)[:120]})
            return


def h_rejected(ctx, base, follow=True, always_reports=False):
    """C15: a call that raises leaves the system exactly as it was; later calls behave as if it had never been made."""
    sysobj, m = hist.replay_base(hist.BASES[base])
    twin, _ = hist.replay_base(hist.BASES[base])  # never sees the rejected call
    before = snap.snapshot(sysobj)
    op = hist.symbolic_call(ctx, m, "c0", ALL_OPS)
    exc = _try(sysobj, op)
    if exc is None:
        ctx.cover("accepted")
        return
    ctx.cover("rejected")
    key = "rejected-%s/%s" % (op["op"], type(exc).__name__)
    inf = {"call": _opinfo(op), "exception": repr(exc)[:160]}
    ok = snap.compare(ctx, before, snap.snapshot(sysobj), "state-unchanged-by-rejected-call", key="mutated-by-" + key, info=inf)
    if always_reports or not ok:
        # every report is a function of the compared state (relationship caches are rebuilt at the start of each analysis);
        # the quick tier recomputes them only when the state differs, the thorough tier always
        rep_before = hist.reports(twin)
        try:
            rep_after = hist.reports(sysobj)
        except Exception as e:  # noqa: BLE001
            ctx.check("reports-still-work-after-rejected-call", cond(False), key="reports-broken-by-" + key, info={**inf, "report_error": repr(e)[:160]})
            return
        snap.compare(ctx, rep_before, rep_after, "reports-unchanged-by-rejected-call", key="reports-changed-by-" + key, info=inf)
    if follow and ok:
        # "later calls behave as if the rejected call had never been made": a fixed follow-up, and - a solver choice - follow-up
        # SEQUENCES that re-use every identifier the rejected call mentioned and that does not exist (yet): first as the RAIL of a
        # new component that is then addressed through that rail, then as the NAME of a new component (a rejected call must
        # not leave anything behind that is keyed by its arguments: negative lookup results, half-made registry entries, ...)
        root = m.order[0]
        seqs = [[{"op": "add_comp", "parents": [root], "kind": "RLoad", "name": "follow"}]]
        known = set(m.order) | set(m.rails().values())
        ids = [op.get(k) for k in ("target", "name", "rail")] + list(op.get("parents", []))
        for s_ in dict.fromkeys(i for i in ids if isinstance(i, str) and i and i not in known):
            seqs.append([{"op": "add_comp", "parents": [root], "kind": "Converter", "name": "follow", "rail": s_},
                         {"op": "add_comp", "parents": [s_], "kind": "RLoad", "name": "follow2"},
                         {"op": "set_comp_phases", "target": s_, "conf": []},
                         {"op": "del_comp", "target": s_, "del_childs": True}])
            seqs.append([{"op": "add_comp", "parents": [root], "kind": "Converter", "name": s_},
                         {"op": "add_comp", "parents": [s_], "kind": "RLoad", "name": "follow2"},
                         {"op": "change_comp", "target": s_, "kind": "LinReg", "name": s_, "rail": "follow3", "variant": 1}])
        seq = seqs[ctx.choice("follow", len(seqs))] if len(seqs) > 1 else seqs[0]
        for step, nxt in enumerate(seq):
            e1, e2 = _try(sysobj, nxt), _try(twin, nxt)
            inf2 = {**inf, "follow_up": [_opinfo(o) for o in seq[:step + 1]], "after_rejected": repr(e1)[:120], "never_rejected": repr(e2)[:120]}
            same = ctx.check("follow-up-call-behaves-the-same", cond((e1 is None) == (e2 is None) and type(e1) is type(e2)), info=inf2)
            if not same:
                return
            snap.compare(ctx, snap.snapshot(twin), snap.snapshot(sysobj), "follow-up-state-as-if-never-rejected", info=inf2)
        if always_reports:
            snap.compare(ctx, hist.reports(twin), hist.reports(sysobj), "follow-up-results-as-if-never-rejected", info=inf)


def h_final_structure(ctx, base, nsym=1, permute=0):
    """C16: after a successful history every report works and equals that of a system built from scratch with the
    same final structure (in a different insertion order when permute > 0)."""
    sysobj, m = hist.replay_base(hist.BASES[base])
    if nsym:
        hist.reports(sysobj)  # an analysis BEFORE the last edit: nothing an analysis may cache can survive an edit
    for k in range(nsym):
        op = hist.symbolic_call(ctx, m, "c%d" % k, ALL_OPS)
        exc = _try(sysobj, op)
        if exc is not None:
            from ..core import Skip

            raise Skip("rejected call: C15's subject")
        try:
            m.apply(op)
        except Exception:  # noqa: BLE001
            from ..core import Skip

            raise Skip("accepted call outside the documented rules: C14's subject")
    if hist.well_formed(sysobj):
        from ..core import Skip

        raise Skip("ill-formed result: C14's subject")
    ctx.cover("successful-history")
    inf = {"base": base, "calls": [_opinfo(o) for o in ([op] if nsym else [])]}
    try:
        rep = hist.reports(sysobj)
    except Exception as e:  # noqa: BLE001
        ctx.check("every-report-succeeds", cond(False), key="report-fails/%s" % type(e).__name__, info={**inf, "error": repr(e)[:200]})
        return
    ctx.check("every-report-succeeds", TRUE)
    live = sorted(m.order)
    listed = sorted(k.split("|")[1] for k in rep["params"])
    ctx.check("reports-list-exactly-the-live-components", cond(listed == live), info={**inf, "listed": listed, "live": live})
    order = list(m.order)
    if permute:
        order = order[::-1] if permute == 1 else order[1::2] + order[0::2]
    try:
        fresh = m.build_fresh(order)
        ref = hist.reports(fresh)
    except Exception as e:  # noqa: BLE001
        ctx.check("same-structure-builds-from-scratch", cond(False), key="fresh-build-fails/%s" % type(e).__name__, info={**inf, "error": repr(e)[:200]})
        return
    for name in ("solve", "rail_rep", "params", "limits", "phases", "tree"):
        snap.compare(ctx, ref[name], rep[name], "%s-equals-fresh-build" % name, key="differs-from-fresh/%s" % name, info=inf)
    a, b = copy.deepcopy(ref["save"]), copy.deepcopy(rep["save"])
    for d in (a, b):  # registry key order is history dependent by construction; compare as sets
        for reg in ("phase_conf", "groups", "rails"):
            d["system"][reg] = dict(sorted(d["system"][reg].items()))
    snap.compare(ctx, a, b, "save-document-equals-fresh-build", key="differs-from-fresh/save", info=inf)


META14 = {
    "explanation": "Real add_source/add_comp/change_comp/del_comp on concrete base histories (which already contain deletions, renames, a mux, several "
                   "sources, freed node indices); the LAST call(s) are symbolic: operation, kind of the new component, del_childs and every name-valued argument "
                   "(a solver-chosen index into existing component names, existing rail names and fresh strings).  After every call - accepted or rejected - "
                   "the well-formedness invariant of the statement is evaluated on the real graph and registries; accepted calls are replayed on the "
                   "harness's own model of the documented rules.  NOTE (DESIGN 4/C14): the state is a graph in a Rust library plus dictionaries, so this is a "
                   "solver-driven exhaustive walk over the bounded argument space, not an inductive proof.",
    "functions": ["system.System.add_source/add_comp/change_comp/del_comp", "system.System._chk_parent/_chk_comp/_chk_name/_get_index"],
    "bounds": "all base histories x 1 symbolic call (quick) / thorough: all pairs of symbolic calls on 2 small bases, (delete or replace) followed by any call on 3 larger bases; name pool = all existing names + rails + 2 fresh; "
              "12 kind classes; numeric parameters concrete",
    "outside": "longer histories; groups (carried, never validated by the API)",
    "assumptions": ["identifiers are only compared / used as keys (data independence)"],
}


def _inst(prop, fn, tier, meta_cover):
    out = []
    for b in hist.EDIT_BASES:
        out.append(Instance(prop, fn, dict(base=b), name="H/%s" % b, cover=meta_cover, max_paths=20000, weight=10, time_limit=1500))
    return out


def instances(tier):
    out = []
    for b in hist.EDIT_BASES:
        out.append(Instance("C14", "c14:h_wellformed", dict(base=b, nsym=1, full=(tier == "thorough")), name="H/%s/1" % b, cover=["accepted", "rejected"], max_paths=20000,
                            weight=10, time_limit=1500))
    if tier == "thorough":
        # two symbolic calls: every pair on the two small bases; on the larger ones the FIRST call is one of the structure-changing
        # edits (delete / replace - the calls that create the states the rules have to cope with), the second call is arbitrary
        # (all pairs on those bases exceed 400 000 paths / 1 h per base)
        for b in ("single", "after-delete"):
            out.append(Instance("C14", "c14:h_wellformed", dict(base=b, nsym=2), name="H/%s/2" % b, cover=["accepted", "rejected"], max_paths=400000,
                                weight=100, time_limit=6000))
        for b, firsts in (("mux", ["del_comp", "change_comp"]), ("by-rail", ["del_comp", "change_comp"]), ("chain", ["del_comp"]), ("chain", ["change_comp"])):
            out.append(Instance("C14", "c14:h_wellformed", dict(base=b, nsym=2, first_ops=firsts), name="H/%s/%s+any" % (b, "|".join(firsts)),
                                cover=["accepted", "rejected"], max_paths=600000, weight=100, time_limit=6000))
    return out, META14
