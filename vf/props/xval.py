"""Translator validation: the same concrete system is solved (a) on plain floats through the real numpy path and (b) on
*numeral proxies* through every shim (np.zeros -> list, sign/abs ite terms, allclose predicate, np.interp model, injected
builtins, real pandas on proxy cells), with the REAL solver iteration in both cases; all cells must agree.  A
disagreement is a harness error (exit 2), never a property verdict."""
import hashlib
from fractions import Fraction

from .. import sysh, spec, symx
from ..ops import cond, TRUE

VALUES = {"vo": [5.0, 12.0, 3.3, 9.0], "rs": [0.05, 0.02, 0.11], "vdrop": [0.3, 0.12], "ig": [0.001, 0.0023], "iq": [0.002, 0.0011],
          "iis": [0.0005, 0.0007], "pwr": [0.5, 0.21], "pwrs": [0.01, 0.02], "ii": [0.1, 0.053], "rt": [10.0, 4.5], "eff": [0.9, 0.83],
          "dur": [10.0, 3.0], "phase": [0.07, 0.15], "io": [0.1, 0.5, 0.9], "vi": [2.5, 5.0], "ta": [31.5]}


def value_for(name, kind_hint=None):
    h = int(hashlib.sha1(name.encode()).hexdigest(), 16)
    key = name.split(".")[-1].split("[")[0]
    if name.startswith("dur["):
        key = "dur"
    if ".phase[" in name:
        key = "phase"
    if ".io[" in name or ".vi[" in name:  # table axes: increasing by index
        idx = int(name.rsplit("[", 1)[1].rstrip("]"))
        return ([0.1, 0.5, 0.9, 1.4] if ".io[" in name else [2.5, 5.0, 12.0])[idx]
    if "[" in name and key in ("eff", "vdrop", "ig"):  # table entries
        base = VALUES[key][h % len(VALUES[key])]
        return round(base * (0.8 + 0.05 * (h % 7)), 6) if key != "eff" else round(0.6 + 0.04 * (h % 8), 6)
    vals = VALUES.get(key, [1.0])
    return vals[h % len(vals)]


class _Ctx:
    symbolic = False

    def __init__(self, numeral):
        self.numeral = numeral

    def real(self, name, **kw):
        v = value_for(name)
        if name.endswith(".rs") and "L" in name.split(".")[0]:  # load resistance
            v = 100.0 + (len(name) % 5) * 7
        return symx.SymReal(symx.lift(v)) if self.numeral else v

    def iter_real(self, name):
        return None

    def assume(self, c):
        pass

    def nice(self, *a):
        pass

    def cover(self, *a):
        pass

    def note(self, *a):
        pass


def _num(x):
    import z3

    if isinstance(x, symx.SymReal):
        t = z3.simplify(x.t)
        if z3.is_rational_value(t):
            return float(Fraction(t.numerator_as_long(), t.denominator_as_long()))
        if z3.is_algebraic_value(t):
            return float(t.as_decimal(15).rstrip("?"))
        raise AssertionError("numeral proxy did not reduce to a number: %s" % t.sexpr()[:120])
    return x


def xval(ctx, shape, loose=False):
    from .. import shims

    kw = {"vtol": 1e-2, "itol": 1e-2, "maxiter": 60} if loose else {}
    out = []
    for numeral in (False, True):
        c = _Ctx(numeral)
        sysobj, info, durations = sysh.build_system(c, shape, rt="all")
        old = shims.ALLCLOSE_MODE[0], shims.ALLCLOSE_HOOK[0]
        shims.ALLCLOSE_MODE[0], shims.ALLCLOSE_HOOK[0] = "tolerance", None
        try:
            df = sysobj.solve(energy=True, ta=(symx.SymReal(symx.lift(31.5)) if numeral else 31.5), **kw)
            rr = sysobj.rail_rep(**kw) if any(n.get("rail") for n in shape["nodes"]) else None
        finally:
            shims.ALLCLOSE_MODE[0], shims.ALLCLOSE_HOOK[0] = old
        out.append((df, rr))
    ctx.cover("compared")
    n = 0
    for a, b in zip(out[0], out[1]):
        if a is None:
            continue
        if list(a.columns) != list(b.columns) or a.shape != b.shape:
            raise AssertionError("translator validation: table shapes differ %r vs %r" % (a.shape, b.shape))
        for col in a.columns:
            for x, y in zip(a[col].tolist(), b[col].tolist()):
                n += 1
                if isinstance(x, str) or isinstance(y, str):
                    if x != y:
                        raise AssertionError("translator validation: cell %r: %r vs %r" % (col, x, y))
                    continue
                fx, fy = float(x), _num(y)
                if abs(fx - fy) > 1e-9 * (1 + abs(fx)) + (1e-3 * (1 + abs(fx)) if loose else 0.0):
                    raise AssertionError("translator validation: cell %r: float path %r vs proxy path %r" % (col, fx, fy))
    ctx.note("cells-compared=%d" % n)
    ctx.check("proxy-path==float-path", TRUE)


def instances(prop, tier):
    from ..core import Instance
    from ..shapes import S, N, curated

    cur = curated()
    ff = {
        "conv-pload": S(N("S", "Source", only=()), N("C", "Converter", "S"), N("L", "PLoad", "C")),
        "tables-1d": S(N("S", "Source", only=(), rail="VIN"), N("C", "Converter", "S", form="t1x3", rail="R1"), N("G", "LinReg", "C", form="t1x2"),
                       N("V", "VLoss", "G", form="t1x2"), N("L", "ILoad", "V"), N("L2", "RLoad", "C")),
        "rect-switch": S(N("S", "Source", only=()), N("W", "PSwitch", "S", only=("ig", "iis")), N("D", "RectD", "W"), N("M", "RectM", "D", only=("ig", "iq")),
                         N("L", "ILoad", "M")),
        "mux-two-src": S(N("S1", "Source", only=()), N("S2", "Source", only=()), N("M", "PMux", ["S1", "S2"], only=("ig",)), N("L", "ILoad", "M"),
                         N("L2", "PLoad", "S2")),
        "phases": S(N("S", "Source", only=()), N("C", "Converter", "S", phases=["a"]), N("L", "ILoad", "C", phases=["a", "b"]),
                    N("L2", "PLoad", "S", phases=["b"]), phases=["a", "b"]),
        "neg": S(N("S", "Source", pol="neg", only=()), N("G", "LinReg", "S", pol="neg"), N("L", "RLoad", "G")),
    }
    out = []
    for sid, sh in ff.items():
        out.append(Instance(prop, "xval:xval", dict(shape=sh), name="X/translator/" + sid, cover=["compared"], weight=3))
    fb = {"src-rs-pload": cur["src-pload"], "pswitch-conv-pload": cur["pswitch-conv-pload"], "depth4": cur["depth4"]}
    for sid, sh in fb.items():
        out.append(Instance(prop, "xval:xval", dict(shape=sh, loose=True), name="X/translator-feedback/" + sid, cover=["compared"], weight=3))
    return out
