"""C04 -- a dead supply rail isolates everything below it."""
from ..core import Instance
from .. import shapes
from .c01 import META as M1

META = dict(M1)
META.update({
    "explanation": "System-level bounded symbolic execution (real solve() from an arbitrary converged iterate): source voltages are "
                   "symbolic INCLUDING 0 V, so the live/dead pattern is a solver decision; phase-inactive elements by concrete "
                   "configuration.  For every row the implication 'supply dead by configuration => all numeric cells 0' and the "
                   "sleep-current/sleep-power law of the inactive element are solver queries.  Unit-level dead/inactive branches of "
                   "every law are covered by the reference model used in C01 (Ite(dead, 0, ...)).",
    "functions": ["system.System.solve", "system.System._solve/_fwd_prop/_back_prop/_child_curr/_sys_init(state part)",
                  "components.*._solv_outp_volt/_solv_inp_curr/_solv_pwr_loss/_get_state", "components._calc_inp_current"],
    "bounds": "shape catalogue below (<= 6 nodes, depth <= 4), 2 phases, every phase solved separately",
})


def instances(tier):
    out = []
    for sid, sh in shapes.dead_shapes().items():
        out.append(Instance("C04", "sys_common:s_run", dict(shape=sh, oracle="c04"), name="S/" + sid, uf=True,
                            cover=["solved", "dead-possible"], weight=20))
    for sid, sh in shapes.phase_shapes().items():
        for ph in sh["phases"]:
            out.append(Instance("C04", "sys_common:s_run", dict(shape=sh, oracle="c04", opts={"phase": ph}),
                                name="S/%s@%s" % (sid, ph), uf=True, cover=["solved"], weight=20))
    # real loop from the real initial iterate on feed-forward cascades (off-states travel one level per sweep)
    from ..shapes import S, N
    rl = {
        "deadsrc-cascade": S(N("S", "Source", pol="nonneg", only=()), N("C1", "Converter", "S", only=()), N("G", "LinReg", "C1", only=("vdrop",)),
                             N("C2", "Converter", "G", only=()), N("L", "PLoad", "C2", only=()), N("L2", "ILoad", "C2", only=())),
        "deadsrc-linreg-conv": S(N("S", "Source", pol="nonneg", only=()), N("G", "LinReg", "S", only=()), N("C", "Converter", "G", only=()),
                                 N("D", "RectD", "C"), N("L", "ILoad", "D", only=())),
    }
    for sid, sh in rl.items():
        out.append(Instance("C04", "sys_common:s_real_loop", dict(shape=sh, oracle="c04"), name="RL/" + sid, uf=True,
                            cover=["solved", "dead-possible"], weight=20))
    ph = ["a", "b"]
    rlp = S(N("S", "Source", only=(), phases=["a"]), N("C1", "Converter", "S", only=("iis",)), N("G", "LinReg", "C1", only=("iis",)),
            N("C2", "Converter", "G", only=("iis",)), N("L", "PLoad", "C2", only=()), phases=ph)
    for p in ph:
        out.append(Instance("C04", "sys_common:s_real_loop", dict(shape=rlp, oracle="c04", opts={"phase": p}), name="RL/src-inactive-cascade@" + p,
                            uf=True, cover=["solved"], weight=20))
    if tier == "thorough":
        for sid, sh in shapes.enumerate_trees(4, pol="nonneg").items():
            out.append(Instance("C04", "sys_common:s_run", dict(shape=sh, oracle="c04"), name="S/enum4/" + sid, uf=True,
                                cover=["solved", "dead-possible"], weight=8, time_limit=3000))
        for sid, sh in shapes.pair_cover(pol="nonneg").items():
            out.append(Instance("C04", "sys_common:s_run", dict(shape=sh, oracle="c04"), name="S/pair/" + sid, uf=True,
                                cover=["solved", "dead-possible"], weight=15, time_limit=3000))
    return out, META
