"""C08 -- the rail report is the solve() table summed per supply rail."""
from ..core import Instance
from ..ops import Eq, And, Or, Not, Implies, Iff, IsZero, cond, TRUE, Ite, Sum
from .. import spec, sysh, shapes
from ..shapes import S, N
from .c01 import META as M1


def s_rails(ctx, shape, warns=None, phase=None):
    """Real rail_rep() and real solve() on the same (named) iterate symbols; per phase and rail the report cells
    are compared with sums over the spec's members of the rail."""
    sysobj, info, durations = sysh.build_system(ctx, shape)
    warns = warns or {}
    import sysloss.components as C

    orig = C._Component._solv_get_warns
    # warning texts are injected as concrete strings (the limit logic itself is C09's subject)
    C._Component._solv_get_warns = lambda self_, *a, **k: warns.get(self_._params["name"], "")
    kw = {"phase": phase} if phase else {}
    try:
        try:
            rep = sysh.run_solve(ctx, sysobj, shape, method="rail_rep", stub_warns=False, **kw)
            df = sysh.run_solve(ctx, sysobj, shape, stub_warns=False, **kw)
        except sysh.Unstable:
            ctx.note("unstable")
            return
    finally:
        C._Component._solv_get_warns = orig
    ctx.cover("solved")
    rows_by_phase = sysh.table_rows(df)
    rails = {nd["name"]: nd.get("rail") for nd in shape["nodes"] if nd.get("rail") and nd["kind"] not in spec.LOADS}
    if not rails:
        same = rep.shape == df.shape and list(rep.columns) == list(df.columns)
        ctx.check("no-rails=>same-table-as-solve", cond(same))
        if same:
            for c in df.columns:
                for a, b in zip(rep[c].tolist(), df[c].tolist()):
                    if isinstance(a, str) or isinstance(b, str):
                        ctx.check("no-rails=>same-cell", cond(a == b), info={"col": c})
                    else:
                        ctx.check("no-rails=>same-cell", Eq(a, b), info={"col": c})
        return
    rep_rows = {}
    # rail_rep() returns None when rails are defined but none of them feeds a component: it then lists no rail, which is
    # what the property allows only if indeed no rail has a consumer - the loop below demands exactly that
    for _, r in (rep.iterrows() if rep is not None else ()):
        rep_rows[(r["Phase"] if "Phase" in rep.columns else "", r["Rail"])] = r
    phases = list(durations) if durations and not phase else [phase or ""]
    for ph in phases:
        rows = rows_by_phase[ph]
        for owner, rail in rails.items():
            members = []  # (Cond "is a member", row, name)
            for c in sysh.children_of(shape, owner):
                if info[c]["kind"] == "PMux" and len(info[c]["parents"]) > 1:
                    sel, none = sysh.mux_selected(info, c, rows)
                    k = info[c]["parents"].index(owner)
                    m = sel[k]
                    if k == 0:
                        m = Or(m, none)  # with no live input the table labels the mux with its first input
                    members.append((m, rows[c], c))
                else:
                    members.append((TRUE, rows[c], c))
            if not members:
                ctx.check("rail-without-consumers-not-listed", cond((ph, rail) not in rep_rows), info={"rail": rail})
                continue
            inf = {"rail": rail, "phase": ph}
            certainly = any(m is TRUE for m, _, _ in members)
            if (ph, rail) not in rep_rows:
                ctx.check("rail-with-consumers-listed", Not(Or(*[m for m, _, _ in members])), info=inf)
                continue
            ctx.check("listed-rail-has-consumers", Or(*[m for m, _, _ in members]), info=inf)
            rr = rep_rows[(ph, rail)]
            ctx.check("rail-voltage=owner-vout", Eq(rr["Voltage (V)"], rows[owner]["vout"]), info=inf)
            for col, key in (("Current (A)", "iin"), ("Power (W)", "pwr"), ("Loss (W)", "loss")):
                ref = Sum([Ite(m, r[key], 0.0) if m is not TRUE else r[key] for m, r, _ in members])
                ctx.check("rail-%s=sum-over-members" % key, Eq(rr[col], ref), info=inf)
            # warning text = union of the members' (non-empty) warnings, as a set of tokens
            got = set(t.strip() for t in str(rr["Warnings"]).split(",") if t.strip())
            for m, r, c in members:
                w = warns.get(c, "")
                if w:
                    ctx.check("member-warning-in-rail-cell", Implies(m, cond(w in got)), info={"rail": rail, "member": c, "phase": ph},
                              key="rail-warning-union")
            allowed = set(warns.get(c, "") for _, _, c in members) - {""}
            ctx.check("rail-cell-has-only-member-warnings", cond(got <= allowed), info=inf)
        listed = set(rl for (p2, rl) in rep_rows if p2 == ph)
        ctx.check("only-declared-rails-listed", cond(listed <= set(rails.values())), info={"phase": ph})


META = dict(M1)
META.update({
    "explanation": "Real rail_rep() (and the real solve() it is compared with) executed on proxies from one arbitrary converged iterate; per phase and "
                   "rail: voltage = owner's Vout, current/power/loss = sums over the spec's members of the rail (a PMux counts towards the rail of its "
                   "selected input - a solver decision), warning cell = union of member warnings (injected concrete strings), every rail with consumers "
                   "listed, no rails => identical to solve().",
    "functions": ["system.System.rail_rep 1191-1250", "system.System.solve 956-975 (rail-in labelling)", "system.System.add_comp 483-490"],
    "bounds": "shape catalogue below (<= 7 nodes, <= 3 rails, <= 2 sources, <= 1 mux), 2 phases",
    "outside": "the TYPE of the result when no declared rail has a consumer (rail_rep returns None there, which lists no rail; the check "
               "then demands that no rail can have a consumer)",
})


def instances(tier):
    out = []
    sh = {}
    sh["one-rail"] = (S(N("S", "Source", rail="VIN"), N("C", "Converter", "S"), N("L1", "PLoad", "C"), N("L2", "ILoad", "S", loss=True), N("L3", "RLoad", "S")), {"C": "io", "L2": "vi"})
    sh["three-rails"] = (S(N("S", "Source", rail="VIN"), N("C", "Converter", "S", rail="3V3"), N("G", "LinReg", "C", rail="1V8"),
                           N("L1", "PLoad", "C", loss=True), N("L2", "ILoad", "G"), N("L3", "RLoad", "G", loss=True), N("L4", "PLoad", "S")),
                         {"L2": "tp", "L3": "tp", "L1": "vi ii"})
    sh["same-warning"] = (S(N("S", "Source", rail="VIN"), N("L1", "PLoad", "S"), N("L2", "ILoad", "S")), {"L1": "vi", "L2": "vi"})
    sh["mixed-rail-and-none"] = (S(N("S", "Source"), N("W", "PSwitch", "S", rail="SW"), N("R", "RLoss", "W"), N("L1", "ILoad", "R"), N("L2", "PLoad", "W")), {})
    sh["two-sources-rails"] = (S(N("S1", "Source", rail="A"), N("L1", "PLoad", "S1"), N("S2", "Source", rail="B"), N("C", "Converter", "S2", rail="C5"),
                                 N("L2", "ILoad", "C"), N("L3", "RLoad", "S2")), {"L3": "pi"})
    sh["mux-rails"] = (S(N("S1", "Source", pol="nonneg", rail="BAT"), N("S2", "Source", rail="USB"), N("M", "PMux", ["S1", "S2"], rs_list=True, rail="SYS"),
                         N("L", "PLoad", "M"), N("L0", "ILoad", "S1")), {"M": "vd"})
    sh["mux-below-rails"] = (S(N("S", "Source", rail="IN"), N("C", "Converter", "S", rail="R1"), N("G", "LinReg", "S", rail="R2"),
                               N("M", "PMux", ["C", "G"], rs_list=True), N("L", "RLoad", "M"), N("L1", "ILoad", "C")), {})
    # the mux inputs (and every other parent) are DECLARED by rail name, the documented add_comp(["Vbatt", "USB_5V"], ...) form
    sh["mux-rails-declared-by-rail"] = (S(N("S1", "Source", pol="nonneg", rail="BAT"), N("S2", "Source", rail="USB"), N("M", "PMux", ["S1", "S2"], rs_list=True, rail="SYS"),
                                          N("L", "PLoad", "M"), N("L0", "ILoad", "S1"), address_by_rail=True), {"M": "vd"})
    sh["mux-below-rails-declared-by-rail"] = (S(N("S", "Source", rail="IN"), N("C", "Converter", "S", rail="R1"), N("G", "LinReg", "S", rail="R2"),
                                                N("M", "PMux", ["C", "G"], rs_list=True), N("L", "RLoad", "M"), N("L1", "ILoad", "C"), address_by_rail=True), {})
    sh["no-rails"] = (S(N("S", "Source"), N("C", "Converter", "S"), N("L", "PLoad", "C")), {"L": "vi"})
    for sid, (shape, w) in sh.items():
        out.append(Instance("C08", "c08:s_rails", dict(shape=shape, warns=w), name="S/" + sid, uf=True, cover=["solved"], weight=20))
    if tier == "thorough":
        import itertools

        bases = {
            "chain": [("S", "Source", None), ("C", "Converter", "S"), ("G", "LinReg", "C"), ("W", "PSwitch", "G"), ("L1", "PLoad", "W"), ("L2", "ILoad", "C"),
                      ("L3", "RLoad", "S")],
            "two-src-mux": [("S1", "Source", None), ("S2", "Source", None), ("C", "Converter", "S2"), ("M", "PMux", ["S1", "C"]), ("L", "ILoad", "M"),
                            ("L2", "PLoad", "S1")],
        }
        for bid, nodes in bases.items():
            owners = [n for n, k, p in nodes if k not in ("PLoad", "ILoad", "RLoad")]
            for r in range(1, len(owners) + 1):
                for sub in itertools.combinations(owners, r):
                    nn = [N(n, k, p, **({"rail": "R_" + n} if n in sub else {}), **({"pol": "nonneg"} if n == "S1" else {}),
                            **({"loss": True} if n == "L2" else {})) for n, k, p in nodes]
                    out.append(Instance("C08", "c08:s_rails", dict(shape=S(*nn), warns={"L": "vi", "L2": "vi", "C": "io"}),
                                        name="S/enum/%s/%s" % (bid, "+".join(sub)), uf=True, cover=["solved"], weight=10))
    ph = ["a", "b"]
    p1 = S(N("S", "Source", rail="VIN"), N("C", "Converter", "S", rail="3V3", phases=["a"]), N("L1", "PLoad", "C", phases=["a"]), N("L2", "ILoad", "S", phases=["a", "b"]), phases=ph)
    out.append(Instance("C08", "c08:s_rails", dict(shape=p1, warns={"L1": "vi"}), name="S/phases-all", uf=True, cover=["solved"], weight=30))
    # the mux selection (hence the rail its row counts towards) differs between the phases; every input rail has a permanent member
    p2 = S(N("S1", "Source", rail="BAT", phases=["a"], only=()), N("S2", "Source", rail="USB", only=()), N("M", "PMux", ["S1", "S2"], only=("rs",)),
           N("L", "PLoad", "M", only=()), N("L0", "ILoad", "S1", only=()), N("L1", "RLoad", "S2", only=()), phases=ph)
    out.append(Instance("C08", "c08:s_rails", dict(shape=p2, warns={"M": "vd"}), name="S/phases-mux-selection-changes", uf=True, cover=["solved"], weight=40))
    # ... and the mux is the ONLY consumer of its input rails: each rail feeds nothing in one of the phases
    p3 = S(N("S1", "Source", rail="BAT", phases=["a"], only=()), N("S2", "Source", rail="USB", only=()), N("M", "PMux", ["S1", "S2"], only=("rs",)),
           N("L", "PLoad", "M", only=()), phases=ph)
    out.append(Instance("C08", "c08:s_rails", dict(shape=p3, warns={"M": "vd"}), name="S/phases-mux-only-consumer", uf=True, cover=["solved"], weight=40))
    for p in ph:
        out.append(Instance("C08", "c08:s_rails", dict(shape=p1, warns={"L2": "tp"}, phase=p), name="S/phases@" + p, uf=True, cover=["solved"], weight=10))
    return out, META
