"""C13 -- a component loaded from a TOML file equals the constructor call."""
import os
import tempfile

from ..core import Instance
from ..ops import Eq, And, Or, Not, Implies, cond, TRUE
from .. import spec, snap, envstubs
from ..envstubs import memory_files
from ..build import params, cls_of, TABLE_KEY, PARAMS
from .c09 import mk_limits

SECTION = {"Source": "source", "PLoad": "pload", "ILoad": "iload", "RLoad": "rload", "RLoss": "rloss", "VLoss": "vloss",
           "Converter": "converter", "LinReg": "linreg", "PSwitch": "pswitch", "PMux": "pmux", "RectD": "rectifier", "RectM": "rectifier"}
MANDATORY = {"Source": ["vo"], "PLoad": ["pwr"], "ILoad": ["ii"], "RLoad": ["rs"], "RLoss": ["rs"], "VLoss": ["vdrop"],
             "Converter": ["vo", "eff"], "LinReg": ["vo"], "PSwitch": [], "PMux": [], "RectD": ["vdrop"], "RectM": ["vdrop"]}


GOOD = {"Source": dict(vo=5.0, rs=0.1), "PLoad": dict(pwr=1.0, pwrs=0.1, rt=1.0, loss=False), "ILoad": dict(ii=0.1, iis=0.01, rt=1.0, loss=True),
        "RLoad": dict(rs=10.0, rt=1.0, loss=False), "RLoss": dict(rs=1.0, rt=2.0), "VLoss": dict(vdrop=0.3, rt=1.0),
        "Converter": dict(vo=3.3, eff=0.9, iq=0.001, iis=0.0001, rt=5.0), "LinReg": dict(vo=3.3, vdrop=0.2, ig=0.001, iis=0.0001, rt=5.0),
        "PSwitch": dict(rs=0.1, ig=0.001, iis=0.0001, rt=5.0), "PMux": dict(rs=[0.1, 0.2], ig=0.001, iis=0.0001, rt=5.0),
        "RectD": dict(vdrop=0.4, rs=0.0, ig=0.0, iq=0.0, rt=1.0), "RectM": dict(vdrop=0.0, rs=0.05, ig=0.001, iq=0.0, rt=1.0)}


def _decoy_config(kind):
    """An earlier file of the same kind: EVERY optional key and a [limits] table, all with values that differ from the defaults
    (nothing of it may survive into a later load - neither via the path nor via state kept per class)."""
    lims = spec.documented_limits(cls_of(kind))[:2]
    return {SECTION[kind]: dict(GOOD[kind]), "limits": {k: [0.125, 0.25] for k in lims}}


def _load(ctx, kind, config, decoy=False):
    """from_file on a file holding ``config``.  ``decoy``: the same path held OTHER parameters a moment ago and was loaded then
    (the component must be built from what the file holds now)."""
    cls = cls_of(kind)
    if ctx.symbolic:
        with memory_files(ctx):
            if decoy:
                envstubs.FILES["mem://c.toml"] = _decoy_config(kind)
                cls.from_file("X", fname="mem://c.toml")
            envstubs.FILES["mem://c.toml"] = config
            return cls.from_file("X", fname="mem://c.toml")
    import toml

    tmp = tempfile.NamedTemporaryFile(suffix=".toml", delete=False, mode="w")
    try:
        if decoy:
            with open(tmp.name, "w") as f:
                toml.dump(_decoy_config(kind), f)
            cls.from_file("X", fname=tmp.name)
        with open(tmp.name, "w") as f:
            toml.dump(config, f)
        tmp.close()
        return cls.from_file("X", fname=tmp.name)
    finally:
        os.unlink(tmp.name)


def _kw(P):
    return {k: (v.as_dict(k) if isinstance(v, spec.Table) else v) for k, v in P.items()}


def _clone(x):
    return envstubs._clone(x)


def e_toml(ctx, kind, present, form="const", with_limits=True, loss=None, iq=False, decoy=False):
    """Optional keys in ``present`` are written to the file, the others are absent (constructor defaults).
    ``iq``: LinReg only - the deprecated scalar ground-current key is present as well (any value, also 0)."""
    optional = [k for k in PARAMS[kind] if k not in MANDATORY[kind]]
    P = params(ctx, kind, "X", form, only=[k for k in optional if k in present], nmux=2, rs_list=(kind == "PMux" and "rslist" in present))
    if kind == "RectM":
        P["vdrop"] = 0.0
    P.pop("loss", None)
    if loss is not None and kind in spec.LOADS:
        P["loss"] = loss
    ctx.assume(spec.valid(kind, {**P, "loss": bool(loss)}))
    if iq:
        P["iq"] = ctx.real("X.iq")
        ctx.nice(P["iq"], [0.001, 0.0, -0.002])
    if kind == "RectD" and not isinstance(P["vdrop"], spec.Table):
        ctx.assume(Not(Eq(P["vdrop"], 0.0)))
    lim = mk_limits(ctx, "X", spec.documented_limits(cls_of(kind))[:2]) if with_limits else None
    config = {SECTION[kind]: _clone(_kw(P))}
    if lim is not None:
        config["limits"] = _clone(lim)
    try:
        a = _load(ctx, kind, config, decoy=decoy)
    except Exception as e:  # noqa: BLE001
        ctx.fail("loads-whatever-the-constructor-accepts", info={"exception": repr(e)[:200], "kind": kind})
        return
    kw = _kw(P)
    if lim is not None:
        kw["limits"] = lim
    b = cls_of(kind)("X", **kw)
    ctx.cover("loaded")
    snap.compare(ctx, snap.comp_state(a), snap.comp_state(b), "loaded==constructed", info={"kind": kind})
    x, y = ctx.real("x"), ctx.real("y")
    ctx.assume(x >= 0)
    ctx.assume(y >= 0)
    if a._ipr is not None and b._ipr is not None:
        va, vb = a._ipr._interp(x, y), b._ipr._interp(x, y)
        nan_a, nan_b = isinstance(va, float) and va != va, isinstance(vb, float) and vb != vb
        if nan_a or nan_b:
            ctx.check("same-interpolated-parameter", cond(nan_a == nan_b))
        else:
            ctx.check("same-interpolated-parameter", Eq(va, vb))


def e_reject(ctx):
    """Missing mandatory key => KeyError; value of the wrong type => ValueError (finite concrete panel over all kinds/keys)."""
    n = 0
    for kind in spec.KINDS:
        cls = cls_of(kind)
        if kind in ("RectM",):
            continue
        good = GOOD[kind]
        for k in MANDATORY[kind]:
            cfg = {SECTION[kind]: {kk: vv for kk, vv in good.items() if kk != k}}
            try:
                _load(ctx, kind, cfg)
                ctx.fail("missing-mandatory-key=>KeyError", key="missing/%s/%s" % (kind, k), info={"kind": kind, "key": k})
            except KeyError:
                ctx.check("missing-mandatory-key=>KeyError", TRUE)
                n += 1
        if kind == "LinReg":
            continue  # "all kinds using the generic loader, i.e. all but LinReg"
        for k in good:
            # wrong types incl. FALSY ones ("", [], False, 0 for a boolean): a loader that tests `value or default` lets exactly those through
            for badv in ("1.0", [1.0], True, "", [], False) if k != "loss" else ("yes", 1.0, 1, 0, 0.0, ""):
                if isinstance(badv, list) and k == "rs" and kind in ("PMux", "RectD"):
                    continue  # a list is a legal rs there
                cfg = {SECTION[kind]: {**good, k: badv}}
                try:
                    _load(ctx, kind, cfg)
                    ctx.fail("wrong-type=>ValueError", key="wrongtype/%s/%s/%s" % (kind, k, type(badv).__name__), info={"kind": kind, "key": k, "value": repr(badv)})
                except ValueError:
                    ctx.check("wrong-type=>ValueError", TRUE)
                    n += 1
    ctx.cover("panel")
    ctx.note("rejections-checked=%d" % n)


def e_falsy(ctx):
    """Legal values that are falsy in Python (0, 0.0, False, an empty list / table where the schema allows a list / table): the file
    must give what the constructor call with that very value gives - the same component, or the same exception type."""
    n = 0
    for kind in spec.KINDS:
        if kind == "RectM":
            continue
        good = GOOD[kind]
        for k, v0 in good.items():
            cands = [False] if k == "loss" else [0, 0.0]
            if k == "rs" and kind in ("PMux", "RectD"):
                cands.append([])
            if k in ("eff", "ig", "vdrop") and TABLE_KEY.get(kind) == k:
                cands.append({})
            for v in cands:
                base = {**good, k: v}
                try:
                    b = cls_of(kind)("X", **base)
                    want = None
                except Exception as e:  # noqa: BLE001
                    b, want = None, type(e)
                try:
                    a = _load(ctx, kind, {SECTION[kind]: dict(base)})
                    got = None
                except Exception as e:  # noqa: BLE001
                    a, got = None, type(e)
                info = {"kind": kind, "key": k, "value": repr(v), "constructor": getattr(want, "__name__", "builds"), "from_file": getattr(got, "__name__", "builds")}
                if want is not None or got is not None:
                    # (the generic loader turns a KeyError-free type problem into ValueError; the constructor's own complaint must survive)
                    ctx.check("falsy-value:same-outcome-as-constructor", cond(want is got), key="falsy/%s/%s/%r" % (kind, k, v), info=info)
                    continue
                snap.compare(ctx, snap.comp_state(a), snap.comp_state(b), "loaded==constructed(falsy)", info=info)
                n += 1
    ctx.cover("panel")
    ctx.note("falsy-values-compared=%d" % n)


def e_ints(ctx):
    """TOML integers are numbers: every numeric key given as an int loads like the constructor call with that int."""
    for kind in spec.KINDS:
        if kind == "RectM":
            continue
        ints = {"Source": dict(vo=5, rs=1), "PLoad": dict(pwr=1, pwrs=1, rt=1), "ILoad": dict(ii=1, iis=1, rt=1), "RLoad": dict(rs=10, rt=1),
                "RLoss": dict(rs=1, rt=2), "VLoss": dict(vdrop=1, rt=1), "Converter": dict(vo=3, eff=1, iq=1, iis=1, rt=5),
                "LinReg": dict(vo=3, vdrop=1, ig=1, iis=1, rt=5), "PSwitch": dict(rs=1, ig=1, iis=1, rt=5), "PMux": dict(rs=1, ig=1, iis=1, rt=5),
                "RectD": dict(vdrop=1, rs=1, ig=1, iq=1, rt=1)}[kind]
        for k in ints:
            base = {kk: float(vv) if kk != k else vv for kk, vv in ints.items()}
            if kind == "Converter" and k != "eff":
                base["eff"] = 0.9
            try:
                a = _load(ctx, kind, {SECTION[kind]: dict(base)})
            except Exception as e:  # noqa: BLE001
                ctx.fail("integer-valued-key-accepted", key="int/%s/%s" % (kind, k), info={"kind": kind, "key": k, "exception": repr(e)[:120]})
                continue
            b = cls_of(kind)("X", **base)
            snap.compare(ctx, snap.comp_state(a), snap.comp_state(b), "loaded==constructed(int)", info={"kind": kind, "key": k})
    ctx.cover("panel")


META = {
    "explanation": "Real _Component.from_file / LinReg.from_file executed on proxies: the TOML layer is an in-memory config dict (a real TOML file is "
                   "written when a counterexample is replayed); every numeric parameter, table entry and limit is symbolic; which optional keys are "
                   "present is enumerated.  The loaded component must be solver-equal (parameters, limits, interpolator behaviour) to the constructor call; "
                   "missing mandatory key => KeyError, wrong type => ValueError and integer-valued keys are finite concrete panels.",
    "functions": ["components._Component.from_file", "components.LinReg.from_file", "components._get_opt/_get_mand", "per-kind _cparams schema",
                  "components.*.__init__"],
    "bounds": "optional-key subsets: none / all / each single key (quick), all subsets (thorough); forms const, 1-D (2 points), 2-D (2x2); 2 limits",
    "outside": "TOML text syntax; a TABLE under the deprecated LinReg 'iq' key (the scalar form is covered)",
    "assumptions": ["floats as reals", "toml.load returns the dict that was dumped"],
}


def instances(tier):
    import itertools

    out = [Instance("C13", "c13:e_reject", {}, cover=["panel"]), Instance("C13", "c13:e_ints", {}, cover=["panel"]),
           Instance("C13", "c13:e_falsy", {}, cover=["panel"])]
    for kind in spec.KINDS:
        optional = [k for k in PARAMS[kind] if k not in MANDATORY[kind]]
        subsets = [[], list(optional)] + [[k] for k in optional]
        if tier == "thorough":
            subsets = [list(c) for r in range(len(optional) + 1) for c in itertools.combinations(optional, r)]
        seen = set()
        for sub in subsets:
            key = tuple(sub)
            if key in seen:
                continue
            seen.add(key)
            out.append(Instance("C13", "c13:e_toml", dict(kind=kind, present=sub, form="const", loss=(len(sub) % 2 == 1) if kind in spec.LOADS else None),
                                cover=["loaded"]))
        if kind in TABLE_KEY:
            for form in ("t1x2", "ct2x2x2"):
                out.append(Instance("C13", "c13:e_toml", dict(kind=kind, present=list(optional), form=form), cover=["loaded"], weight=5))
        if kind == "PMux":
            out.append(Instance("C13", "c13:e_toml", dict(kind=kind, present=list(optional) + ["rslist"], form="const"), cover=["loaded"]))
        # the path was loaded before with other content (one instance per kind; all optional keys present)
        out.append(Instance("C13", "c13:e_toml", dict(kind=kind, present=list(optional), form="const", decoy=True,
                                                      loss=True if kind in spec.LOADS else None),
                            cover=["loaded"], name="toml/%s/path-reused-with-new-content" % kind))
        # ... and the later file is minimal: absent optional keys / an absent [limits] table take the constructor defaults
        for sub, wl in (([], False), ([], True), (optional[:1], False)):
            out.append(Instance("C13", "c13:e_toml", dict(kind=kind, present=sub, form="const", decoy=True, with_limits=wl,
                                                          loss=None),
                                cover=["loaded"], name="toml/%s/after-full-file/%s%s" % (kind, "+".join(sub) or "minimal", "+limits" if wl else "")))
        if kind == "LinReg":  # the deprecated key next to / instead of the new one
            for sub, form in ((list(optional), "const"), ([k for k in optional if k != "ig"], "const"), (list(optional), "t1x2")):
                out.append(Instance("C13", "c13:e_toml", dict(kind=kind, present=sub, form=form, iq=True), cover=["loaded"],
                                    name="toml/LinReg/deprecated-iq/%s/%s" % ("with-ig" if "ig" in sub else "without-ig", form)))
    return out, META
