"""C11 -- constructors reject unphysical parameters and normalise signs."""
from ..core import Instance
from ..ops import Eq, And, Or, Not, Implies, Iff, IsZero, Gt, Ge, Lt, Le, Abs, cond, TRUE, FALSE
from .. import spec
from ..build import params, construct, TABLE_KEY, parse_form, cls_of

# parameters the laws read straight from _params: must be stored as magnitudes
DIRECT = {"Source": ["rs"], "PLoad": ["pwr", "pwrs", "rt"], "ILoad": ["ii", "iis", "rt"], "RLoad": ["rs", "rt"],
          "RLoss": ["rs", "rt"], "VLoss": ["rt"], "Converter": ["iq", "iis", "rt"], "LinReg": ["vdrop", "iis", "rt"],
          "PSwitch": ["rs", "iis", "rt"], "PMux": ["iis", "rt"], "RectD": ["rt"], "RectM": ["rs", "iq", "rt"]}


def u_ctor(ctx, kind, form="const", rs_list=False):
    P = params(ctx, kind, "X", form, assume_axes=(form == "const" or form.startswith("c")) or True, nmux=2, rs_list=rs_list)
    valid = spec.valid(kind, P)
    if kind == "RectD":
        ctx.assume(Not(IsZero(P["vdrop"])) if not isinstance(P["vdrop"], spec.Table) else TRUE)
    try:
        comp = construct(kind, "X", P)
    except ValueError:
        ctx.cover("rejected")
        ctx.check("rejected-only-if-invalid", Not(valid))
        return
    ctx.cover("accepted")
    ctx.check("accepted-only-if-valid", valid)
    for k in DIRECT[kind]:
        if k in P and not isinstance(P[k], (list, spec.Table)):
            ctx.check("stored-as-magnitude", Eq(comp._params[k], Abs(P[k])), info={"param": k})
    if kind == "PMux" and not rs_list:
        ctx.check("stored-as-magnitude", Eq(comp._params["rs"], Abs(P["rs"])), info={"param": "rs"}, key="pmux-rs-magnitude")
    tk = TABLE_KEY.get(kind)
    x, y = ctx.real("x"), ctx.real("y")
    ctx.assume(x >= 0)
    ctx.assume(y >= 0)
    if tk and not isinstance(P[tk], spec.Table):
        want = P[tk] if kind == "Converter" else Abs(P[tk])
        ctx.check("constant-parameter-as-magnitude", Eq(comp._ipr._interp(x, y), want), info={"param": tk})
    if tk and isinstance(P[tk], spec.Table):
        v = comp._ipr._interp(x, y)
        if not (isinstance(v, float) and v != v):
            ctx.check("tabulated-parameter-nonnegative", Ge(v, 0.0))
            if kind == "Converter":
                ctx.check("tabulated-efficiency-in-(0,1]", And(Gt(v, 0.0), Le(v, 1.0)))
    # consequence: a passive element never amplifies, whatever the sign of the given parameters
    if kind in spec.SERIES:
        vi, io = ctx.real("vi"), ctx.real("io")
        ctx.assume(io >= 0)
        vis = [vi, ctx.real("vi2")] if kind == "PMux" else [vi]
        try:
            vo, _ = comp._solv_outp_volt(vis, 0.0, io, "", {} if kind in ("RLoss", "VLoss", "RectD", "RectM") else [], {"off": [False] * len(vis)})
        except ValueError:
            return
        sel_v = vi
        if kind == "PMux":
            sel_v = vis[0] if not isinstance(vis[0], float) else vis[0]
            from ..ops import Ite

            sel_v = Ite(IsZero(vis[0]), vis[1], vis[0])
        rs_sel = None
        if kind == "PMux" and rs_list:
            from ..ops import Ite

            rs_sel = Ite(IsZero(vis[0]), P["rs"][1], P["rs"][0])
        pol = spec.keeps_polarity(kind, P, sel_v, io, rs_sel=rs_sel)
        ctx.check("passive-never-amplifies", Implies(pol, Le(Abs(vo), Abs(sel_v))), key="passive-amplifies/%s" % kind)


def u_malformed(ctx):
    """Finite concrete panel of malformed arguments (not where the solver adds anything; kept for completeness)."""
    import sysloss.components as C

    bad = [
        (C.Converter, dict(vo=5.0, eff={"vi": [3.3], "io": [0.1, 0.5], "eff": [[0.5, 0.6, 0.7]]})),          # mismatched dims
        (C.Converter, dict(vo=5.0, eff={"vi": [3.3], "io": [0.5, 0.1], "eff": [[0.5, 0.6]]})),               # non-monotonic io
        (C.Converter, dict(vo=5.0, eff={"vi": [3.3], "io": [0.1, 0.1], "eff": [[0.5, 0.6]]})),               # not strictly increasing
        (C.Converter, dict(vo=5.0, eff={"vi": [3.3], "eff": [[0.5, 0.6]]})),                                  # missing axis
        (C.Converter, dict(vo=5.0, eff={"vi": [3.3, 5.0], "io": [0.1, 0.5], "eff": [[0.5, 0.6]]})),           # row count mismatch
        (C.Converter, dict(vo=5.0, eff={"vi": 3.3, "io": [0.1, 0.5], "eff": [[0.5, 0.6]]})),                  # scalar vi axis (IndexError before 5e33b1d)
        (C.Converter, dict(vo=5.0, eff={"vi": [3.3], "io": 0.1, "eff": [[0.5]]})),                            # scalar io axis
        (C.Converter, dict(vo=5.0, eff={"vi": [3.3], "io": [0.1, 0.5], "eff": [[[0.5], [0.6]]]})),            # value block nested too deep (accepted before 5e33b1d)
        (C.Converter, dict(vo=5.0, eff={"vi": [3.3], "io": [0.1, 0.5], "eff": [0.5, 0.6]})),                  # value block 1-D
        (C.Converter, dict(vo=5.0, eff={"vi": [3.3, 5.0], "io": [0.1, 0.5, 1.0], "eff": [[0.5, 0.6], [0.7, 0.8], [0.9, 0.95]]})),  # transposed (same element count)
        (C.Converter, dict(vo=5.0, eff={"vi": [3.3, 5.0], "io": [0.1, 0.5], "eff": [[0.5, 0.6, 0.7, 0.8]]})),   # 1x4 for a 2x2 grid
        (C.VLoss, dict(vdrop={"vi": [3.3, 5.0], "io": [0.1, 0.5, 1.0], "vdrop": [[0.5, 0.6], [0.7, 0.8], [0.9, 0.95]]})),
        (C.LinReg, dict(vo=3.3, ig={"vi": [5.0, 6.0], "io": [0.0, 0.1, 0.2], "ig": [[1e-3, 2e-3], [1e-3, 2e-3], [1e-3, 2e-3]]})),
        (C.PSwitch, dict(ig={"vi": [[5.0]], "io": [0.0, 0.1], "ig": [[1e-3, 2e-3]]})),                          # vi axis 2-D
        (C.VLoss, dict(vdrop={"vi": [3.3], "io": [0.1, 0.5]})),                                               # missing z
        (C.LinReg, dict(vo=3.3, ig={"vi": [5.0], "io": [0.0, 0.1], "ig": [[1e-3, -1e-3]]})),                  # negative tabulated ig
        (C.PSwitch, dict(ig={"vi": [5.0], "io": [0.0, 0.1], "ig": [[-1e-3, 1e-3]]})),
        (C.PMux, dict(ig={"vi": [5.0], "io": [0.0, 0.1], "ig": [[-1e-3, 1e-3]]})),
        (C.Rectifier, dict(ig={"vi": [5.0], "io": [0.0, 0.1], "ig": [[-1e-3, 1e-3]]})),
        (C.PMux, dict(rs=[0.1, "a"])),                                                                         # non-numeric list
        (C.Rectifier, dict(rs=[0.1, "a"])),
        (C.Rectifier, dict(rs="x")),
        (C.Source, dict(vo=5.0, limits={"io": 1.0})),                                                           # malformed limits
        (C.Source, dict(vo=5.0, limits={"io": [0.0]})),
        (C.PLoad, dict(pwr=1.0, limits={"vi": [0.0, "x"]})),
        (C.RLoad, dict(rs=0.0)),
        (C.RLoad, dict(rs=-0.0)),
        (C.LinReg, dict(vo=3.3, vdrop=3.3)),
        (C.LinReg, dict(vo=-3.3, vdrop=4.0)),
        (C.Converter, dict(vo=3.3, eff=0.0)),
        (C.Converter, dict(vo=3.3, eff=1.0001)),
        (C.Converter, dict(vo=3.3, eff=-0.5)),
    ]
    for n, (cls, kw) in enumerate(bad):
        try:
            cls("X", **kw)
            ctx.fail("malformed-argument-rejected", key="malformed/%d" % n, info={"cls": cls.__name__, "args": repr(kw)[:200]})
        except ValueError:
            ctx.check("malformed-argument-rejected", TRUE)
        except Exception as e:  # the property names ValueError; any other exception type is a (different) failure to reject properly
            ctx.fail("malformed-argument-rejected", key="malformed/%d/%s" % (n, type(e).__name__), info={"cls": cls.__name__, "args": repr(kw)[:200], "raised": repr(e)[:200]})
    ctx.cover("panel")


META = {
    "explanation": "All 11 real constructors executed on proxies with arguments of ANY sign (scalar, per-input list, 1-D and 2-D tables): "
                   "ValueError <=> the documented validity predicate fails; parameters the laws read are stored as magnitudes; constant "
                   "and tabulated parameters evaluate to magnitudes (efficiency within (0,1]); consequence: a passive series element never "
                   "amplifies for any accepted argument values (Loss>=0, Eff<=100 are proved for all accepted arguments in C02, whose unit "
                   "harness places no sign assumption on the arguments).",
    "functions": ["components.*.__init__ (11 kinds)", "components._check_interp", "components._check_limits",
                  "components._Interp0d/_Interp1d/_Interp2d", "components.*._solv_outp_volt (series kinds)"],
    "bounds": "all real argument values; tables 1-D (2 points) and 2-D (2x2 concrete axes); PMux 2 inputs; malformed (non-numeric, wrong shape) "
              "arguments: finite concrete panel of 32 calls",
    "outside": "binary64; tables with vi rows not increasing; non-finite floats",
    "assumptions": ["floats as reals", "table axes increasing (non-monotonic io covered by the concrete panel)"],
}


def instances(tier):
    out = [Instance("C11", "c11:u_malformed", {}, cover=["panel"])]
    for kind in spec.KINDS:
        forms = ["const"]
        if kind in TABLE_KEY:
            forms += ["t1x2", "ct2x2x2"] if tier == "thorough" or kind in ("Converter", "LinReg", "VLoss") else ["t1x2"]
        for form in forms:
            cov = ["accepted"] + (["rejected"] if kind in ("RLoad", "Converter", "LinReg") or (form != "const" and TABLE_KEY.get(kind) == "ig") else [])
            # (exact 2-D forms: ~60 s of nonlinear solving on an idle machine, observed > 800 s next to a 16-core sweep - hence the larger budget)
            out.append(Instance("C11", "c11:u_ctor", dict(kind=kind, form=form), cover=cov, weight=50 if "t2" in form else 1,
                                **({"time_limit": 3000} if "t2" in form else {})))
    out.append(Instance("C11", "c11:u_ctor", dict(kind="PMux", form="const", rs_list=True), cover=["accepted"]))
    return out, META
