"""Shape catalogue (the bound of the system-level claims).  Component parameters are symbolic; the tree shape,
kinds, phase configuration, rails and groups are concrete."""
import itertools


def N(name, kind, parent=None, **kw):
    d = {"name": name, "kind": kind}
    if isinstance(parent, (list, tuple)):
        d["parents"] = list(parent)
    elif parent is not None:
        d["parent"] = parent
    d.update(kw)
    return d


def S(*nodes, phases=None):
    return {"nodes": list(nodes), "phases": phases}


INNER = ["RLoss", "VLoss", "Converter", "LinReg", "PSwitch", "RectD", "RectM"]
LEAF = ["PLoad", "ILoad", "RLoad"]


def curated():
    c = {}
    c["src-pload"] = S(N("S", "Source"), N("L", "PLoad", "S"))
    c["src-iload"] = S(N("S", "Source"), N("L", "ILoad", "S"))
    c["src-rload"] = S(N("S", "Source"), N("L", "RLoad", "S"))
    c["conv-pload"] = S(N("S", "Source"), N("C", "Converter", "S"), N("L", "PLoad", "C"))
    c["rloss-iload"] = S(N("S", "Source"), N("R", "RLoss", "S"), N("L", "ILoad", "R"))
    c["vloss-pload"] = S(N("S", "Source"), N("V", "VLoss", "S"), N("L", "PLoad", "V"))
    c["linreg-rload"] = S(N("S", "Source"), N("G", "LinReg", "S"), N("L", "RLoad", "G"))
    c["pswitch-conv-pload"] = S(N("S", "Source"), N("W", "PSwitch", "S"), N("C", "Converter", "W"), N("L", "PLoad", "C"))
    c["rectd-iload"] = S(N("S", "Source"), N("D", "RectD", "S"), N("L", "ILoad", "D"))
    c["rectm-pload"] = S(N("S", "Source"), N("D", "RectM", "S"), N("L", "PLoad", "D"))
    c["fanout3"] = S(N("S", "Source"), N("C", "Converter", "S"), N("L1", "PLoad", "C"), N("L2", "ILoad", "C"), N("L3", "RLoad", "C"))
    c["depth4"] = S(N("S", "Source"), N("R", "RLoss", "S"), N("C", "Converter", "R"), N("G", "LinReg", "C"), N("L", "ILoad", "G"))
    c["two-sources"] = S(N("S1", "Source"), N("C", "Converter", "S1"), N("L1", "PLoad", "C"),
                         N("S2", "Source"), N("G", "LinReg", "S2"), N("L2", "ILoad", "G"))
    c["mux2"] = S(N("S1", "Source", pol="nonneg"), N("S2", "Source", pol="nonneg"), N("M", "PMux", ["S1", "S2"], rs_list=True), N("L", "PLoad", "M"))
    c["mux3-conv"] = S(N("S1", "Source", pol="nonneg"), N("S2", "Source", pol="nonneg"), N("S3", "Source"),
                       N("M", "PMux", ["S1", "S2", "S3"], rs_list=True), N("C", "Converter", "M"), N("L", "ILoad", "C"))
    c["mux-same-source"] = S(N("S", "Source"), N("C", "Converter", "S"), N("G", "LinReg", "S"),
                             N("M", "PMux", ["C", "G"], rs_list=True), N("L", "RLoad", "M"))
    c["neg-src-rs"] = S(N("S", "Source", pol="neg"), N("L", "ILoad", "S"))
    c["neg-linreg"] = S(N("S", "Source", pol="neg", only=()), N("G", "LinReg", "S", pol="neg"), N("L", "RLoad", "G"))
    c["neg-switch-rloss"] = S(N("S", "Source", pol="neg", only=()), N("W", "PSwitch", "S"), N("R", "RLoss", "W"), N("L", "ILoad", "R"))
    c["dead-src-conv"] = S(N("S", "Source", pol="nonneg"), N("C", "Converter", "S"), N("L1", "PLoad", "C"), N("L2", "RLoad", "S"))
    c["src-leaf-mix"] = S(N("S", "Source"), N("L1", "PLoad", "S"), N("W", "PSwitch", "S"), N("L2", "ILoad", "W"), N("L3", "RLoad", "W"))
    return c


def with_defaults(shape, only_sym=None):
    """Restrict the symbolic optional parameters: by default keep every parameter symbolic."""
    return shape
