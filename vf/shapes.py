"""Shape catalogue (the bound of the system-level claims).  Component parameters are symbolic; the tree shape,
kinds, phase configuration, rails and groups are concrete."""
import itertools


def N(name, kind, parent=None, **kw):
    d = {"name": name, "kind": kind}
    if isinstance(parent, (list, tuple)):
        d["parents"] = list(parent)
    elif parent is not None:
        d["parent"] = parent
    d.update(kw)
    return d


def S(*nodes, phases=None, **kw):
    d = {"nodes": list(nodes), "phases": phases}
    d.update(kw)
    return d


INNER = ["RLoss", "VLoss", "Converter", "LinReg", "PSwitch", "RectD", "RectM"]
LEAF = ["PLoad", "ILoad", "RLoad"]


def curated():
    c = {}
    c["src-pload"] = S(N("S", "Source"), N("L", "PLoad", "S"))
    c["src-iload"] = S(N("S", "Source"), N("L", "ILoad", "S"))
    c["src-rload"] = S(N("S", "Source"), N("L", "RLoad", "S"))
    c["conv-pload"] = S(N("S", "Source"), N("C", "Converter", "S"), N("L", "PLoad", "C"))
    c["rloss-iload"] = S(N("S", "Source"), N("R", "RLoss", "S"), N("L", "ILoad", "R"))
    c["vloss-pload"] = S(N("S", "Source"), N("V", "VLoss", "S"), N("L", "PLoad", "V"))
    c["linreg-rload"] = S(N("S", "Source"), N("G", "LinReg", "S"), N("L", "RLoad", "G"))
    c["pswitch-conv-pload"] = S(N("S", "Source"), N("W", "PSwitch", "S"), N("C", "Converter", "W"), N("L", "PLoad", "C"))
    c["rectd-iload"] = S(N("S", "Source"), N("D", "RectD", "S"), N("L", "ILoad", "D"))
    c["rectm-pload"] = S(N("S", "Source"), N("D", "RectM", "S"), N("L", "PLoad", "D"))
    c["fanout3"] = S(N("S", "Source"), N("C", "Converter", "S"), N("L1", "PLoad", "C"), N("L2", "ILoad", "C"), N("L3", "RLoad", "C"))
    c["depth4"] = S(N("S", "Source"), N("R", "RLoss", "S"), N("C", "Converter", "R"), N("G", "LinReg", "C"), N("L", "ILoad", "G"))
    c["two-sources"] = S(N("S1", "Source"), N("C", "Converter", "S1"), N("L1", "PLoad", "C"),
                         N("S2", "Source"), N("G", "LinReg", "S2"), N("L2", "ILoad", "G"))
    c["mux2"] = S(N("S1", "Source", pol="nonneg"), N("S2", "Source", pol="nonneg"), N("M", "PMux", ["S1", "S2"], rs_list=True), N("L", "PLoad", "M"))
    c["mux3-conv"] = S(N("S1", "Source", pol="nonneg"), N("S2", "Source", pol="nonneg"), N("S3", "Source"),
                       N("M", "PMux", ["S1", "S2", "S3"], rs_list=True), N("C", "Converter", "M"), N("L", "ILoad", "C"))
    c["mux-same-source"] = S(N("S", "Source"), N("C", "Converter", "S"), N("G", "LinReg", "S"),
                             N("M", "PMux", ["C", "G"], rs_list=True), N("L", "RLoad", "M"))
    c["neg-src-rs"] = S(N("S", "Source", pol="neg"), N("L", "ILoad", "S"))
    c["neg-linreg"] = S(N("S", "Source", pol="neg", only=()), N("G", "LinReg", "S", pol="neg"), N("L", "RLoad", "G"))
    c["neg-switch-rloss"] = S(N("S", "Source", pol="neg", only=()), N("W", "PSwitch", "S"), N("R", "RLoss", "W"), N("L", "ILoad", "R"))
    c["dead-src-conv"] = S(N("S", "Source", pol="nonneg"), N("C", "Converter", "S"), N("L1", "PLoad", "C"), N("L2", "RLoad", "S"))
    c["tables-chain"] = S(N("S", "Source"), N("C", "Converter", "S", form="t1x2"), N("G", "LinReg", "C", form="t1x2"), N("L", "ILoad", "G"))
    c["vloss-table"] = S(N("S", "Source"), N("V", "VLoss", "S", form="t1x2"), N("D", "RectD", "V", form="t1x2"), N("L", "PLoad", "D"))
    c["opaque-conv"] = S(N("S", "Source"), N("C", "Converter", "S", form="opaque"), N("L", "PLoad", "C"))
    c["opaque-neg-switch"] = S(N("S", "Source", pol="neg", only=()), N("W", "PSwitch", "S", form="opaque"), N("G", "LinReg", "W", form="opaque", pol="neg"),
                               N("L", "ILoad", "G"))
    # "spare outputs": inner components without any child, added AFTER a loaded branch (rustworkx emits later siblings first, so in the
    # backward sweep such a leaf directly follows a node that carries current) - their Iout is 0 and their own law must still hold
    c["spare-outputs-last"] = S(N("S", "Source"), N("C", "Converter", "S"), N("L", "PLoad", "C"), N("R", "RLoss", "S"), N("W", "PSwitch", "S"),
                                N("G", "LinReg", "C"), N("D", "RectM", "C"))
    c["spare-outputs-mixed"] = S(N("S", "Source"), N("V0", "VLoss", "S"), N("W", "PSwitch", "S"), N("L", "ILoad", "W"), N("V", "VLoss", "S"),
                                 N("D", "RectD", "W"), N("C", "Converter", "W"), N("L2", "RLoad", "S"))
    c["src-leaf-mix"] = S(N("S", "Source"), N("L1", "PLoad", "S"), N("W", "PSwitch", "S"), N("L2", "ILoad", "W"), N("L3", "RLoad", "W"))
    return c


def with_defaults(shape, only_sym=None):
    """Restrict the symbolic optional parameters: by default keep every parameter symbolic."""
    return shape


def dead_shapes():
    c = {}
    c["deadsrc-conv-pload"] = S(N("S", "Source", pol="nonneg"), N("C", "Converter", "S"), N("L", "PLoad", "C"))
    c["deadsrc-depth3"] = S(N("S", "Source", pol="nonneg"), N("W", "PSwitch", "S"), N("G", "LinReg", "W"), N("L", "RLoad", "G"),
                            N("L2", "ILoad", "W"))
    # two voltage-generating stages cascaded below the dead source, more below them (off-state travels one level per sweep)
    c["deadsrc-cascade"] = S(N("S", "Source", pol="nonneg", only=()), N("C1", "Converter", "S", only=()), N("G", "LinReg", "C1", only=("vdrop",)),
                             N("C2", "Converter", "G", only=()), N("W", "PSwitch", "C2", only=("rs",)), N("L", "PLoad", "W", only=()), N("L2", "ILoad", "C2", only=()))
    c["deadsrc-rloss-rect"] = S(N("S", "Source", pol="nonneg"), N("R", "RLoss", "S"), N("D", "RectM", "R"), N("L", "ILoad", "D"))
    c["deadsrc-vloss-rectd"] = S(N("S", "Source", pol="nonneg"), N("V", "VLoss", "S"), N("D", "RectD", "V"), N("L", "PLoad", "D"))
    c["two-src-one-dead"] = S(N("S1", "Source", pol="nonneg"), N("C", "Converter", "S1"), N("L1", "PLoad", "C"),
                              N("S2", "Source"), N("L2", "ILoad", "S2"))
    c["mux-dead-inputs"] = S(N("S1", "Source", pol="nonneg"), N("S2", "Source", pol="nonneg"),
                             N("M", "PMux", ["S1", "S2"], rs_list=True), N("C", "Converter", "M"), N("L", "PLoad", "C"))
    c["negdead-src"] = S(N("S", "Source", pol="any", only=()), N("G", "LinReg", "S", pol="nonzero"), N("L", "RLoad", "G"))
    return c


def phase_shapes():
    """(shape, [phases to solve]) -- list-configured elements inactive in some phase; loads with tables."""
    c = {}
    ph = ["a", "b"]
    c["conv-inactive"] = S(N("S", "Source"), N("C", "Converter", "S", phases=["a"]), N("L1", "PLoad", "C"), N("L2", "ILoad", "S"), phases=ph)
    c["conv-inactive-by-rail"] = S(N("S", "Source", rail="VIN"), N("C", "Converter", "S", phases=["a"], rail="3V3", phase_via_rail=True),
                                   N("G", "LinReg", "C"), N("L1", "ILoad", "G"), N("L2", "RLoad", "C"), phases=ph)
    c["src-inactive-by-rail"] = S(N("S", "Source", phases=["b"], rail="BAT", phase_via_rail=True), N("L", "PLoad", "S"), phases=ph)
    # configurations that name phases which are not defined / were defined only temporarily; components configured first
    c["undefined-phase-names"] = S(N("S", "Source"), N("C", "Converter", "S", phases=["zz"]), N("L1", "PLoad", "C", phases=["zz"]),
                                   N("L2", "ILoad", "S", phases=["a", "zz"]), N("L3", "PLoad", "S", phases=["zz"]), phases=ph, comp_phases_first=True)
    c["phases-redefined"] = S(N("S", "Source"), N("W", "PSwitch", "S", phases=["b", "t"]), N("L1", "ILoad", "W", phases=["t", "a"]),
                              N("L2", "RLoad", "S", phases=["b"]), phases=ph, comp_phases_first=True, redefine_phases=["a", "t"])
    c["src-inactive"] = S(N("S", "Source", phases=["b"]), N("W", "PSwitch", "S"), N("L", "RLoad", "W"), phases=ph)
    c["switch-inactive-deep"] = S(N("S", "Source"), N("W", "PSwitch", "S", phases=["b"]), N("C", "Converter", "W"),
                                  N("G", "LinReg", "C"), N("L", "ILoad", "G"), phases=ph)
    c["linreg-inactive"] = S(N("S", "Source"), N("G", "LinReg", "S", phases=["a"]), N("R", "RLoss", "G"), N("L", "PLoad", "R"), phases=ph)
    c["mux-inactive"] = S(N("S1", "Source"), N("S2", "Source"), N("M", "PMux", ["S1", "S2"], rs_list=True, phases=["a"]),
                          N("L", "PLoad", "M"), phases=ph)
    c["mux-input-inactive"] = S(N("S", "Source"), N("W1", "PSwitch", "S", phases=["a"]), N("W2", "PSwitch", "S"),
                                N("M", "PMux", ["W1", "W2"], rs_list=True), N("L", "ILoad", "M"), phases=ph)
    # the mux sleeps while its FIRST input is dead and a later one is live: it must still draw / dissipate its sleep current
    c["mux-inactive-first-dead"] = S(N("S1", "Source", phases=["a"]), N("S2", "Source"), N("M", "PMux", ["S1", "S2"], rs_list=True, phases=["a"]),
                                     N("W", "PSwitch", "M"), N("L", "ILoad", "W"), N("L2", "PLoad", "M"), phases=ph)
    c["mux-src-inactive"] = S(N("S1", "Source", phases=["a"]), N("S2", "Source"), N("M", "PMux", ["S1", "S2"]),
                              N("L", "RLoad", "M"), phases=ph)
    c["loads-phased"] = S(N("S", "Source"), N("C", "Converter", "S"), N("L1", "PLoad", "C", phases=["a"]),
                          N("L2", "ILoad", "C", phases=["b"]), N("L3", "RLoad", "C", phases=["b"]), N("L4", "ILoad", "S", phases=["a", "b"]), phases=ph)
    return c


def mux_shapes():
    c = {}
    cur = curated()
    for k in ("mux2", "mux3-conv", "mux-same-source"):
        c[k] = cur[k]
    c["mux1"] = S(N("S", "Source", pol="nonneg"), N("M", "PMux", ["S"]), N("L", "PLoad", "M"))
    c["mux2-scalar-rs"] = S(N("S1", "Source", pol="nonneg"), N("S2", "Source"), N("M", "PMux", ["S1", "S2"]), N("L", "ILoad", "M"))
    c["mux4"] = S(N("S1", "Source", pol="nonneg", only=()), N("S2", "Source", pol="nonneg", only=()), N("S3", "Source", pol="nonneg", only=()),
                  N("S4", "Source"), N("M", "PMux", ["S1", "S2", "S3", "S4"], rs_list=True, only=("rs",)), N("L", "RLoad", "M"))
    c["mux-below-regs"] = S(N("S1", "Source", pol="nonneg"), N("C", "Converter", "S1"), N("S2", "Source"), N("W", "PSwitch", "S2"),
                            N("M", "PMux", ["C", "W"], rs_list=True), N("L", "PLoad", "M"), N("L0", "ILoad", "C"))
    # a lower-priority input that has other children, some added BEFORE the mux (successor order is reverse insertion order)
    c["mux-lowprio-sibling"] = S(N("S1", "Source", pol="nonneg"), N("S2", "Source"), N("L2", "ILoad", "S2"),
                                 N("M", "PMux", ["S1", "S2"], rs_list=True), N("L", "PLoad", "M"), N("L3", "RLoad", "S2"))
    # the conducting input sits two levels below its source; the other source is emitted just before the mux
    c["mux-deep-input-a"] = S(N("S1", "Source", pol="nonneg"), N("S2", "Source"), N("C", "Converter", "S2"), N("D", "RectD", "C"),
                              N("M", "PMux", ["S1", "D"], rs_list=True), N("L", "ILoad", "M"))
    c["mux-deep-input-b"] = S(N("S2", "Source"), N("C", "Converter", "S2"), N("D", "RLoss", "C"), N("S1", "Source", pol="nonneg"),
                              N("M", "PMux", ["D", "S1"], rs_list=True), N("L", "PLoad", "M"), N("L1", "ILoad", "S1"))
    # negative rails: "live" means non-zero, not positive (selection, domain attribution and current routing must agree on that)
    c["mux2-neg"] = S(N("S1", "Source", pol="nonpos"), N("S2", "Source", pol="neg"), N("M", "PMux", ["S1", "S2"], rs_list=True), N("L", "ILoad", "M"))
    c["mux2-neg-linreg"] = S(N("S1", "Source", pol="nonpos", only=()), N("S2", "Source", pol="neg", only=()), N("M", "PMux", ["S1", "S2"], only=("rs",)),
                             N("G", "LinReg", "M", pol="neg", only=()), N("L", "RLoad", "G", only=()))
    c["mux-shared-src-load"] = S(N("S1", "Source", pol="nonneg"), N("S2", "Source"), N("L1", "ILoad", "S1"),
                                 N("M", "PMux", ["S1", "S2"], rs_list=True), N("G", "LinReg", "M"), N("L", "RLoad", "G"))
    return c


def multi_source_shapes():
    c = {}
    cur = curated()
    c["two-sources"] = cur["two-sources"]
    c["three-sources"] = S(N("S1", "Source"), N("L1", "PLoad", "S1"), N("S2", "Source"), N("R", "RLoss", "S2"), N("L2", "ILoad", "R"),
                           N("S3", "Source", pol="nonneg"), N("L3", "RLoad", "S3"))
    # the same structures inserted in other orders (rows are emitted in rustworkx's topological order)
    c["two-sources-interleaved"] = S(N("S1", "Source"), N("S2", "Source"), N("G", "LinReg", "S2"), N("C", "Converter", "S1"),
                                     N("L2", "ILoad", "G"), N("L1", "PLoad", "C"))
    c["two-sources-reversed"] = S(N("S2", "Source"), N("S1", "Source"), N("C", "Converter", "S1"), N("G", "LinReg", "S2"),
                                  N("L1", "PLoad", "C"), N("L2", "ILoad", "G"))
    c["three-sources-interleaved"] = S(N("S1", "Source"), N("S2", "Source"), N("S3", "Source", pol="nonneg"), N("L3", "RLoad", "S3"),
                                       N("R", "RLoss", "S2"), N("L1", "PLoad", "S1"), N("L2", "ILoad", "R"))
    c["fan-two-sources"] = S(N("S1", "Source"), N("S2", "Source"), N("A1", "PSwitch", "S1"), N("A2", "PSwitch", "S2"),
                             N("L1", "PLoad", "A1"), N("L2", "PLoad", "A2"), N("L3", "ILoad", "S1"), N("L4", "ILoad", "S2"))
    for k, v in mux_shapes().items():
        if k in ("mux2", "mux2-neg", "mux-below-regs", "mux-shared-src-load", "mux-lowprio-sibling", "mux-deep-input-a", "mux-deep-input-b"):
            c[k] = v
    return c


def pair_cover(pol="pos", src_only=None):
    """Thorough tier: one chain per (parent kind, child kind) pair, Source -> P -> C [-> ILoad]; 80 shapes of 2..4 nodes."""
    c = {}
    kinds = INNER + LEAF
    for ch in kinds:
        nodes = [N("S", "Source", pol=pol, **({"only": src_only} if src_only is not None else {})), N("X", ch, "S")]
        if ch in INNER:
            nodes.append(N("L", "ILoad", "X"))
        c["S>%s" % ch] = S(*nodes)
    for p in INNER:
        for ch in kinds:
            nodes = [N("S", "Source", pol=pol, **({"only": src_only} if src_only is not None else {})), N("P", p, "S"), N("X", ch, "P")]
            if ch in INNER:
                nodes.append(N("L", "PLoad" if ch != "RLoss" else "RLoad", "X"))
            c["S>%s>%s" % (p, ch)] = S(*nodes)
    return c


# ---------------------------------------------------------------------------------------------------
ENUM_INNER = ["RLoss", "Converter", "LinReg", "PSwitch", "RectD"]
ENUM_LEAF = ["PLoad", "ILoad", "RLoad"]


def enumerate_trees(max_nodes=4, pol="pos"):
    """Thorough tier: every single-source tree with <= max_nodes nodes over 5 inner kinds and 3 load kinds (children as
    multisets - sibling order does not change the structure).  4 nodes: 904 shapes."""
    import itertools

    kinds = ENUM_INNER + ENUM_LEAF
    out = {}

    def subtrees(budget):
        """all (kind, children-tuple) trees with at most `budget` nodes, canonical form."""
        res = []
        for k in kinds:
            res.append((k, ()))
            if k in ENUM_INNER and budget > 1:
                for kids in forests(budget - 1):
                    if kids:
                        res.append((k, kids))
        return res

    def forests(budget):
        """all multisets of subtrees with total size <= budget (incl. the empty forest)."""
        res = [()]
        if budget <= 0:
            return res
        for first_size in range(1, budget + 1):
            pass
        # generate non-decreasing sequences of canonical subtrees
        allsub = {}
        for b in range(1, budget + 1):
            allsub[b] = [t for t in subtrees(b) if size(t) == b]

        def rec(remaining, minkey, acc):
            if acc:
                res.append(tuple(acc))
            for b in range(1, remaining + 1):
                for t in allsub[b]:
                    key = repr(t)
                    if key < minkey:
                        continue
                    rec(remaining - b, key, acc + [t])

        res.clear()
        res.append(())
        rec(budget, "", [])
        return res

    def size(t):
        return 1 + sum(size(c) for c in t[1])

    def emit(t, parent, nodes, counter):
        counter[0] += 1
        name = "%s%d" % (t[0][0] if t[0] not in ("RectD",) else "D", counter[0])
        nodes.append(N(name, t[0], parent))
        for c in t[1]:
            emit(c, name, nodes, counter)

    seen = set()
    for forest in forests(max_nodes - 1):
        if not forest:
            continue
        key = repr(forest)
        if key in seen:
            continue
        seen.add(key)
        nodes = [N("S", "Source", pol=pol)]
        cnt = [0]
        for t in forest:
            emit(t, "S", nodes, cnt)
        sid = "/".join(_fmt(t) for t in forest)
        out[sid] = S(*nodes)
    return out


def _fmt(t):
    return t[0] + ("(" + ",".join(_fmt(c) for c in t[1]) + ")" if t[1] else "")


def enumerate_mux(pol="nonneg"):
    """Thorough tier: muxes with 2..4 inputs; each input is a source (that may be dead), a converter / switch below its own
    source, or a second branch of an earlier source; scalar and per-input resistance; one load kind below."""
    out = {}
    inputs = ["src", "conv", "switch", "shared"]
    import itertools

    for k in (2, 3, 4):
        for combo in itertools.product(inputs, repeat=k):
            if k == 4 and len(set(combo)) > 2:
                continue
            if combo.count("shared") and combo[0] == "shared":
                continue
            nodes, parents = [], []
            for j, kind in enumerate(combo):
                if kind == "shared":
                    base = parents[0] if nodes and nodes[0]["kind"] == "Source" else None
                    src = nodes[0]["name"]
                    nm = "B%d" % j
                    nodes.append(N(nm, "LinReg", src, only=("vdrop",)))
                    parents.append(nm)
                    continue
                s = "S%d" % j
                nodes.append(N(s, "Source", pol=pol if j < k - 1 else "pos", only=()))
                if kind == "src":
                    parents.append(s)
                else:
                    nm = ("C%d" if kind == "conv" else "W%d") % j
                    nodes.append(N(nm, "Converter" if kind == "conv" else "PSwitch", s, only=("rs",) if kind == "switch" else ()))
                    parents.append(nm)
            for rs_list in (True, False):
                nn = list(nodes) + [N("M", "PMux", parents, rs_list=rs_list, only=("rs",)), N("L", "ILoad" if rs_list else "PLoad", "M", only=())]
                out["mux%d:%s:%s" % (k, "+".join(combo), "list" if rs_list else "scalar")] = S(*nn)
    return out


def real_loop_shapes():
    """Feed-forward systems (currents do not feed back into voltages) for the real-loop harness: the real initial iterate
    and the real sweeps, symbolic parameters.  Off-states and voltages travel one level per sweep here."""
    c = {}
    c["conv-linreg-loads"] = S(N("S", "Source", only=()), N("C", "Converter", "S"), N("G", "LinReg", "C"), N("L1", "PLoad", "G"), N("L2", "ILoad", "C"),
                               N("L3", "RLoad", "S"))
    c["vloss-rectd-chain"] = S(N("S", "Source", only=()), N("V", "VLoss", "S"), N("D", "RectD", "V"), N("C", "Converter", "D"), N("L", "PLoad", "C"))
    c["switch-iload"] = S(N("S", "Source"), N("W", "PSwitch", "S"), N("R", "RLoss", "W"), N("L", "ILoad", "R"))
    c["mux-dead-first"] = S(N("S1", "Source", pol="nonneg", only=()), N("S2", "Source", only=()), N("C", "Converter", "S2", only=()),
                            N("M", "PMux", ["S1", "C"], rs_list=True), N("G", "LinReg", "M", only=("vdrop",)), N("L", "ILoad", "G", only=()))
    c["mux3-dead-patterns"] = S(N("S1", "Source", pol="nonneg", only=()), N("S2", "Source", pol="nonneg", only=()), N("S3", "Source", only=()),
                                N("M", "PMux", ["S1", "S2", "S3"], rs_list=True, only=("rs",)), N("L", "ILoad", "M", only=()), N("L2", "ILoad", "S2", only=()))
    c["neg-chain"] = S(N("S", "Source", pol="neg", only=()), N("G", "LinReg", "S", pol="neg"), N("W", "PSwitch", "G", only=("ig",)), N("L", "RLoad", "W"))
    return c


def real_loop_phase_shapes():
    ph = ["a", "b"]
    c = {}
    c["conv-inactive-deep"] = S(N("S", "Source", only=()), N("C", "Converter", "S", phases=["a"], only=("iis",)), N("G", "LinReg", "C", only=("iis",)),
                                N("C2", "Converter", "G", only=()), N("L", "PLoad", "C2", phases=["a"], only=("pwrs",)), N("L2", "ILoad", "S", phases=["b"], only=("iis",)),
                                phases=ph)
    c["mux-input-inactive"] = S(N("S", "Source", only=()), N("W1", "PSwitch", "S", phases=["a"], only=("iis",)), N("W2", "PSwitch", "S", only=()),
                                N("M", "PMux", ["W1", "W2"], only=()), N("L", "ILoad", "M", only=()), phases=ph)
    return c


def variants():
    """Generic transformations of catalogue shapes that earlier seeded changes showed to matter: parents addressed by RAIL
    name, and a deleted dummy component that leaves a hole in the node numbering before anything is analysed."""
    c = {}
    c["by-rail/chain"] = S(N("S", "Source", rail="VIN"), N("C", "Converter", "S", rail="R1"), N("G", "LinReg", "C", rail="R2"), N("L1", "PLoad", "G"),
                           N("L2", "ILoad", "C"), address_by_rail=True)
    c["by-rail/mux"] = S(N("S1", "Source", pol="nonneg", rail="A"), N("S2", "Source", rail="B"), N("W", "PSwitch", "S2", rail="SW"),
                         N("M", "PMux", ["S1", "W"], rs_list=True, rail="SYS"), N("L", "PLoad", "M"), address_by_rail=True)
    c["hole/chain"] = S(N("S", "Source"), N("X", "RLoss", "S", dummy=True, only=()), N("C", "Converter", "S"), N("L1", "PLoad", "C"), N("L2", "RLoad", "S"))
    c["hole/two-src"] = S(N("S1", "Source"), N("X", "PLoad", "S1", dummy=True, only=()), N("S2", "Source"), N("G", "LinReg", "S2"), N("L2", "ILoad", "G"),
                          N("L1", "ILoad", "S1"))
    c["hole/mux"] = S(N("S1", "Source", pol="nonneg"), N("X", "ILoad", "S1", dummy=True, only=()), N("S2", "Source"),
                      N("M", "PMux", ["S1", "S2"], rs_list=True), N("L", "PLoad", "M"))
    # index RE-USE: the dummy below S1 is deleted before C is added under the LATER source S2, so C carries a lower node index than its
    # own source; the mux input G sits two levels below S2
    c["reuse/mux-deep-input"] = S(N("S1", "Source", pol="nonneg"), N("X", "RLoss", "S1", dummy=True, only=()), N("S2", "Source"),
                                  N("C", "Converter", "S2", after_deleting=["X"]), N("G", "LinReg", "C"),
                                  N("M", "PMux", ["G", "S1"], rs_list=True), N("L", "PLoad", "M"))
    c["reuse/mux-deep-input-2nd"] = S(N("S1", "Source", pol="nonneg"), N("X", "RLoss", "S1", dummy=True, only=()), N("S2", "Source"),
                                      N("C", "Converter", "S2", after_deleting=["X"]), N("G", "LinReg", "C"),
                                      N("M", "PMux", ["S1", "G"], rs_list=True), N("L", "PLoad", "M"))
    return c
