"""Construct real sysloss components from harness inputs (symbolic or concrete) together with the
spec-level parameter dict P."""
from .spec import Table, OpaqueTable, OpaqueIpr

TABLE_KEY = {"VLoss": "vdrop", "Converter": "eff", "LinReg": "ig", "PSwitch": "ig", "PMux": "ig",
             "RectD": "vdrop", "RectM": "ig"}

# parameters per kind: (key, is_mandatory)
PARAMS = {
    "Source": ["vo", "rs"],
    "PLoad": ["pwr", "pwrs", "rt"],
    "ILoad": ["ii", "iis", "rt"],
    "RLoad": ["rs", "rt"],
    "RLoss": ["rs", "rt"],
    "VLoss": ["vdrop", "rt"],
    "Converter": ["vo", "eff", "iq", "iis", "rt"],
    "LinReg": ["vo", "vdrop", "ig", "iis", "rt"],
    "PSwitch": ["rs", "ig", "iis", "rt"],
    "PMux": ["rs", "ig", "iis", "rt"],
    "RectD": ["vdrop", "rt"],
    "RectM": ["rs", "ig", "iq", "rt"],
}


CONCRETE_IO = [0.1, 0.5, 0.9, 1.5]
CONCRETE_VI = [2.5, 5.0, 12.0, 20.0]


def mk_table(ctx, name, key, n_io, n_vi, assume_axes=True, concrete_axes=False, neg_rows=False):
    if concrete_axes:
        io, vi = CONCRETE_IO[:n_io], CONCRETE_VI[:n_vi]
        z = [[ctx.real("%s.%s[%d][%d]" % (name, key, j, i)) for i in range(n_io)] for j in range(n_vi)]
        return Table(io, vi, z, neg_rows=neg_rows)
    io = [ctx.real("%s.%s.io[%d]" % (name, key, i)) for i in range(n_io)]
    vi = [ctx.real("%s.%s.vi[%d]" % (name, key, j)) for j in range(n_vi)]
    z = [[ctx.real("%s.%s[%d][%d]" % (name, key, j, i)) for i in range(n_io)] for j in range(n_vi)]
    if assume_axes:
        ctx.assume(io[0] >= 0)
        for i in range(n_io - 1):
            ctx.assume(io[i] < io[i + 1])
        ctx.assume(vi[0] > 0)
        for j in range(n_vi - 1):
            ctx.assume(vi[j] < vi[j + 1])
    return Table(io, vi, z)


def parse_form(form):
    """'const' | 't1xN' (1-D, N io points) | 't2xNxM' (2-D, N io points, M vi rows); prefix 'c' = concrete axes, 'nc' = concrete axes with negative vi rows."""
    if form in ("const", "opaque"):
        return None
    if form.startswith("n"):  # 'n' = vi rows written negative (see spec.Table.neg_rows); only with concrete axes
        form = form[1:]
    if form.startswith("c"):
        form = form[1:]
    if form.startswith("t1x"):
        return int(form[3:]), 1
    if form.startswith("t2x"):
        a, b = form[3:].split("x")
        return int(a), int(b)
    raise ValueError(form)


def cls_of(kind):
    import sysloss.components as C

    return {"RectD": C.Rectifier, "RectM": C.Rectifier}.get(kind) or getattr(C, kind)


def params(ctx, kind, name, form="const", fixed=None, loss=False, nmux=1, rs_list=False, only=None,
           assume_axes=True):
    """Harness inputs for one component -> spec-level parameter dict P.
    ``fixed``: {key: concrete value} overriding symbolic inputs; ``only``: restrict the symbolic optional
    parameters to this set (others take the constructor defaults)."""
    fixed = dict(fixed or {})
    mandatory = {"Source": ["vo"], "PLoad": ["pwr"], "ILoad": ["ii"], "RLoad": ["rs"], "RLoss": ["rs"],
                 "VLoss": ["vdrop"], "Converter": ["vo", "eff"], "LinReg": ["vo"], "RectD": ["vdrop"]}.get(kind, [])
    P = {}
    for key in PARAMS[kind]:
        if key in fixed:
            P[key] = fixed[key]
        elif only is not None and key not in only and key not in mandatory and not (
                key == TABLE_KEY.get(kind) and (parse_form(form) or form == "opaque")):
            continue
        elif key == TABLE_KEY.get(kind) and form == "opaque":
            P[key] = OpaqueTable(name, key)
        elif key == TABLE_KEY.get(kind) and parse_form(form):
            n_io, n_vi = parse_form(form)
            P[key] = mk_table(ctx, name, key, n_io, n_vi, assume_axes, concrete_axes=form.lstrip("n").startswith("c"), neg_rows=form.startswith("n"))
        elif key == "rs" and kind == "PMux" and rs_list:
            P[key] = [ctx.real("%s.rs[%d]" % (name, i)) for i in range(nmux)]
        else:
            P[key] = ctx.real("%s.%s" % (name, key))
    if kind in ("PLoad", "ILoad", "RLoad"):
        P["loss"] = loss
    return P


def construct(kind, name, P, limits=None):
    """Call the real constructor.  Constructor exceptions propagate."""
    from . import symx

    kw = {}
    opaque = None
    for k, v in P.items():
        if isinstance(v, OpaqueTable) and symx.active() is not None:
            opaque = v
            kw[k] = 0.5  # placeholder accepted by every constructor; the interpolator is replaced below
            continue
        kw[k] = v.as_dict(k) if isinstance(v, Table) else (list(v) if isinstance(v, list) else v)
    if limits is not None:
        kw["limits"] = limits
    comp = cls_of(kind)(name, **kw)
    if opaque is not None:
        comp._ipr = OpaqueIpr(opaque)
    return comp


def build(ctx, kind, name, form="const", limits=None, **kw):
    P = params(ctx, kind, name, form, **kw)
    return construct(kind, name, P, limits), P
