"""Structural snapshots of a System (graph + registries + component parameters) and cell-wise comparison of
snapshots / DataFrames with solver equality on numeric leaves."""
from .ops import Eq, cond
from .symx import SymReal


def comp_state(c):
    return {"class": type(c).__name__, "params": dict(c._params), "limits": {k: list(v) if isinstance(v, list) else v for k, v in c._limits.items()},
            "ipr": type(c._ipr).__name__ if getattr(c, "_ipr", None) is not None else None}


def snapshot(sysobj, deep=True):
    g = sysobj._g
    names = {idx: g[idx]._params["name"] for idx in g.node_indices()}
    nodes = dict(g.attrs["nodes"])
    parents = {}
    sysobj._rel_update() if deep else None
    for idx, nm in names.items():
        ps = list(g.predecessor_indices(idx))
        if len(ps) > 1:
            ps = [g.attrs["nodes"].get(p, None) for p in g.attrs["pnames"].get(idx, [])] if False else ps
            order = list(g.attrs["pnames"].get(idx, []))
            parents[nm] = ("mux", order)
        else:
            parents[nm] = ("one", [names[p] for p in ps])
    return {
        "names": sorted(names.values()),
        "registry_nodes": sorted(nodes),
        "node_index_consistent": all(names.get(i) == n for n, i in nodes.items()) and len(nodes) == len(names),
        "parents": parents,
        "edges": sorted((names[a], names[b]) for a, b in g.edge_list()),
        "groups": dict(g.attrs["groups"]),
        "rails": dict(g.attrs["rails"]),
        "phases": dict(g.attrs["phases"]),
        "phase_conf": {k: (dict(v) if isinstance(v, dict) else list(v)) for k, v in g.attrs["phase_conf"].items()},
        "pnames_keys": sorted(g.attrs["pnames"]),
        "comps": {nm: comp_state(g[idx]) for idx, nm in names.items()},
        "sysname": g.attrs["name"],
    }


def leaves(x, path=""):
    """Flatten nested dict/list/tuple into (path, leaf)."""
    if isinstance(x, dict):
        for k in sorted(x, key=str):
            yield from leaves(x[k], "%s/%s" % (path, k))
    elif isinstance(x, (list, tuple)):
        yield (path + "/#len", len(x))
        for i, e in enumerate(x):
            yield from leaves(e, "%s[%d]" % (path, i))
    else:
        yield (path, x)


def same_leaf(a, b):
    """-> Cond"""
    num = (int, float, SymReal)
    if isinstance(a, bool) or isinstance(b, bool):
        return cond(a is b or a == b)
    if isinstance(a, num) and isinstance(b, num):
        return Eq(a, b)
    try:
        import numpy as np

        if isinstance(a, (np.floating, np.integer)) or isinstance(b, (np.floating, np.integer)):
            if isinstance(a, str) or isinstance(b, str):
                return cond(False)
            return Eq(a, b)
    except ImportError:
        pass
    return cond(type(a) == type(b) and a == b)


def compare(ctx, a, b, label, key=None, limit=400, info=None):
    la, lb = dict(leaves(a)), dict(leaves(b))
    ok = True
    if set(la) != set(lb):
        diff = sorted(set(la) ^ set(lb))[:6]
        ctx.check(label + ":same-shape", cond(False), key=key, info={"differs_at": diff, **(info or {})})
        return False
    n = 0
    for p in la:
        n += 1
        if n > limit:
            break
        x, y = la[p], lb[p]
        if p.endswith("/Warnings") and isinstance(x, str) and isinstance(y, str):
            # a warnings cell is a set of tokens: rail_rep() joins a Python set, whose order depends on the interpreter's hash seed and on the
            # order of the rows it was filled from - the token ORDER is not part of any property (C08 states the union)
            x, y = " ".join(sorted(x.replace(",", " ").split())), " ".join(sorted(y.replace(",", " ").split()))
        c = same_leaf(x, y)
        if c.concrete() and c.t:
            continue
        ok = ctx.check(label, c, key=key, info={"at": p, **(info or {})}) and ok
    return ok


def frame_cells(df):
    """DataFrame -> nested dict {row index: {column: cell}} (None for a missing frame)."""
    if df is None:
        return None
    out = {}
    cols = list(df.columns)
    for i, (_, r) in enumerate(df.iterrows()):
        key = "%03d:%s" % (i, r[cols[0]])
        out[key] = {c: r[c] for c in cols}
    return out


def frame_by_name(df):
    """Rows keyed by (Phase, Component) so that row order does not matter."""
    if df is None:
        return None
    out = {}
    cols = list(df.columns)
    for _, r in df.iterrows():
        key = "%s|%s" % (r["Phase"] if "Phase" in cols else "", r[cols[0]])
        if "Active phase" in cols:
            key += "|" + str(r["Active phase"])
        out[key] = {c: r[c] for c in cols}
    return out
