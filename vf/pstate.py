"""Every explored path must see the package as a freshly started interpreter does: the explorer re-executes the harness once per
path inside ONE process, so state that the code under test keeps outside its objects (module-level / class-level containers,
lazily created class attributes, functools caches) would otherwise leak from one path into the next - and a counterexample that
depends on such a leak could never reproduce in the (fresh-process) replay.

snapshot()  - taken once, after the shims are installed and before the first path
restore()   - at every path start: containers are refilled IN PLACE (identity is kept: objects of the package may alias them,
              e.g. the shared default-limits dict), names / class attributes that did not exist at snapshot time are removed,
              functools caches are cleared.
Outside: state hidden in closures, in function attributes or in default-argument objects."""
import copy
import sys

MODS = ("sysloss.components", "sysloss.system", "sysloss.utils", "sysloss.diagram")
_CONT = (dict, list, set)
_snap = None


def _owners():
    for mn in MODS:
        m = sys.modules.get(mn)
        if m is None:
            continue
        yield m
        for v in list(vars(m).values()):
            if isinstance(v, type) and getattr(v, "__module__", None) == mn:
                yield v


def snapshot():
    global _snap
    _snap = []
    for o in _owners():
        d = vars(o)
        names = set(d)
        conts = {k: (v, copy.deepcopy(v)) for k, v in d.items() if isinstance(v, _CONT) and not k.startswith("__")}
        _snap.append((o, names, conts))


def restore():
    if _snap is None:
        return
    for o, names, conts in _snap:
        d = vars(o)
        for k in [k for k in d if k not in names and not k.startswith("__")]:
            try:
                delattr(o, k)
            except (AttributeError, TypeError):
                pass
        for k, (obj, saved) in conts.items():
            fresh = copy.deepcopy(saved)
            if isinstance(obj, dict):
                obj.clear()
                obj.update(fresh)
            elif isinstance(obj, list):
                obj[:] = fresh
            else:
                obj.clear()
                obj |= fresh
            if d.get(k) is not obj:
                try:
                    setattr(o, k, obj)
                except (AttributeError, TypeError):
                    pass
        for v in list(d.values()):
            f = getattr(v, "__func__", v)
            cc = getattr(f, "cache_clear", None)
            if callable(cc):
                try:
                    cc()
                except Exception:  # noqa: BLE001
                    pass
