"""Debug: run one instance in-process and print everything.  python -m vf.dbg C01 <substring>"""
import importlib, json, sys
from . import core

prop, sub = sys.argv[1], sys.argv[2]
mod = importlib.import_module("vf.props." + prop.lower())
insts, meta = mod.instances(sys.argv[3] if len(sys.argv) > 3 else "quick")
for i in insts:
    if sub in i.name:
        r = core.run_instance(i.as_dict())
        r.pop("shims", None)
        print(json.dumps(r, indent=1, default=str))
        break
