"""System-level harness support: build a real ``System`` from a shape description through the public API,
run the real ``solve()`` from an *arbitrary symbolic iterate* (one inductive step, see DESIGN 3/S), and read the
returned DataFrame back as rows of proxies.

shape = {"nodes": [ {name, kind, parent | parents, form?, pol?, phases?, rail?, group?, loss?, fixed?, only?,
                     limits?, rs_list?}, ... ],      # in insertion order, sources have no parent
         "phases": ["p1", "p2"] | None}
"""
from . import spec, symx
from .build import params, construct
from .ops import Abs, And, Or, Not, Eq, Ge, Gt, Le, Lt, IsZero, Implies, cond, Ite, TRUE

MAG_KEYS = ("rs", "pwr", "pwrs", "ii", "iis", "iq", "ig", "vdrop", "rt")


class Unstable(Exception):
    pass


def node_parents(nd):
    if "parents" in nd:
        return list(nd["parents"])
    if "parent" in nd:
        return [nd["parent"]]
    return []


def depth_of(shape):
    byname = {n["name"]: n for n in shape["nodes"]}

    def d(n):
        ps = node_parents(byname[n])
        return 0 if not ps else 1 + max(d(p) for p in ps)

    return max(d(n["name"]) for n in shape["nodes"])


NICE = {"rs": [0.05, 0.02, 0.1], "vdrop": [0.3, 0.1], "ig": [0.001, 0.002], "iq": [0.002, 0.001], "iis": [0.0005, 0.001],
        "pwr": [0.5, 0.2, 2.0, 5.0], "pwrs": [0.01, 0.02], "ii": [0.1, 0.05, 0.5, 1.0], "rt": [10.0, 5.0], "eff": [0.9, 0.8]}


def _nice(ctx, x, key, kind, idx, pol="pos"):
    if key == "vo":
        base = [5.0 + idx, 12.0, 3.3]
        if pol in ("neg", "nonpos"):
            base = [-b for b in base]
        elif pol == "any":
            base = base + [0.0] + [-b for b in base]
        ctx.nice(x, base)
    elif key == "rs" and kind == "RLoad":
        ctx.nice(x, [100.0 + idx, 50.0])
    elif key in NICE:
        ctx.nice(x, [c * (1 + 0.1 * idx) for c in NICE[key]])


def build_system(ctx, shape, assume_nonneg=True, sysname="sys", rt="none"):
    """-> (System, info, durations) ; info[name] = dict(kind, P, parents, conf, comp)"""
    from sysloss.system import System
    from .core import Skip

    info = {}
    sysobj = None
    phases = shape.get("phases")
    durations = {}
    for idx, nd in enumerate(shape["nodes"]):
        kind, name = nd["kind"], nd["name"]
        fixed = dict(nd.get("fixed") or {})
        if kind != "Source" and not (rt == "all" or (isinstance(rt, (list, tuple)) and name in rt)):
            fixed.setdefault("rt", 0.0)  # thermal resistance symbolic only where asked (each one forks solve() on tr > 0)
        P = params(ctx, kind, name, nd.get("form", "const"), fixed=fixed, loss=nd.get("loss", False),
                   nmux=len(node_parents(nd)), rs_list=nd.get("rs_list", False), only=nd.get("only"))
        pol = nd.get("pol", "pos")
        for k, v in P.items():
            if isinstance(v, list):
                for e in v:
                    if hasattr(e, "t"):
                        if assume_nonneg:
                            ctx.assume(e >= 0)
                        _nice(ctx, e, k, kind, idx)
                continue
            if isinstance(v, spec.Table):
                for row in v.z:
                    for e in row:
                        if kind != "Converter" and assume_nonneg:
                            ctx.assume(e >= 0)
                        _nice(ctx, e, k, kind, idx)
                continue
            if not hasattr(v, "t"):
                continue
            if k in MAG_KEYS and assume_nonneg:
                ctx.assume(v >= 0)
            if k == "vo":
                if pol == "pos":
                    ctx.assume(v > 0)
                elif pol == "neg":
                    ctx.assume(v < 0)
                elif pol == "nonzero":
                    ctx.assume(Not(IsZero(v)))
                elif pol == "nonneg":
                    ctx.assume(v >= 0)
                elif pol == "nonpos":
                    ctx.assume(v <= 0)
            if k == "rs" and kind == "RLoad":
                ctx.assume(v > 0)
            _nice(ctx, v, k, kind, idx, pol)
        ctx.assume(spec.valid(kind, P))
        if kind == "RectD" and hasattr(P.get("vdrop"), "t"):
            ctx.assume(P["vdrop"] > 0)  # vdrop == 0 selects the MOSFET bridge (kind RectM)
        try:
            comp = construct(kind, name, P, limits=nd.get("limits"))
        except ValueError as e:
            raise Skip("constructor rejected %s: %s" % (name, e))
        kw = {}
        if nd.get("rail"):
            kw["rail"] = nd["rail"]
        if nd.get("group"):
            kw["group"] = nd["group"]
        ps = node_parents(nd)
        for gone in nd.get("after_deleting", ()):
            # a dummy deleted BEFORE this node is added: rustworkx hands the freed index to this node, so a component can
            # carry a lower node index than its own source / parent (added earlier than it in no ordering of the final tree)
            if gone in info:
                sysobj.del_comp(gone)
                info.pop(gone)
        if kind == "Source":
            if sysobj is None:
                sysobj = System(sysname, comp, **kw)
            else:
                sysobj.add_source(comp, **kw)
        else:
            byname = {n["name"]: n for n in shape["nodes"]}
            # the API resolves a parent given by its rail name as well as by its component name
            refs = [(byname[p].get("rail") if (shape.get("address_by_rail") and byname[p].get("rail")) else p) for p in ps]
            sysobj.add_comp(refs if kind == "PMux" else refs[0], comp=comp, **kw)
        info[name] = {"kind": kind, "P": P, "parents": ps, "conf": None, "comp": comp, "nd": nd}
    if phases:
        for n, p in enumerate(phases):
            d = ctx.real("dur[%s]" % p)
            ctx.assume(d > 0)
            ctx.nice(d, [10.0 * (n + 1), 3.0 + n])
            durations[p] = d
        if not shape.get("comp_phases_first"):
            if shape.get("prior_sys_phases"):
                # an earlier schedule (other names / more phases) that the final call replaces
                sysobj.set_sys_phases({p: 7.0 + k for k, p in enumerate(shape["prior_sys_phases"])})
            sysobj.set_sys_phases(dict(durations))
        for idx, nd in enumerate(shape["nodes"]):
            pc = nd.get("phases")
            if pc is None:
                continue
            kind, name = nd["kind"], nd["name"]
            if kind in spec.LOADS:
                conf = {}
                for n, p in enumerate(pc):
                    val = ctx.real("%s.phase[%s]" % (name, p))
                    if kind == "RLoad":
                        # set_comp_phases accepts 0 ohm (the constructor does not): only where the shape asks for it
                        ctx.assume(val >= 0 if nd.get("zero_ohm_ok") else val > 0)
                        ctx.nice(val, [80.0 + 10 * n + idx, 40.0])
                    else:
                        ctx.assume(val >= 0)
                        ctx.nice(val, [0.1 * (n + 1) + 0.01 * idx, 0.03])
                    conf[p] = val
            else:
                conf = list(pc)
            if nd.get("prior_phases") is not None:
                # an earlier configuration of the same component that the final call replaces (nothing of it may survive)
                if kind in spec.LOADS:
                    prior = {}
                    for n, p in enumerate(nd["prior_phases"]):
                        pv = ctx.real("%s.prior[%s]" % (name, p))
                        ctx.assume(pv > 0)
                        ctx.nice(pv, [0.7 + 0.1 * n, 55.0])
                        prior[p] = pv
                else:
                    prior = list(nd["prior_phases"])
                sysobj.set_comp_phases(name, prior)
            # the API resolves rail names as well as component names
            sysobj.set_comp_phases(nd["rail"] if nd.get("phase_via_rail") else name, conf)
            info[name]["conf"] = conf
        if shape.get("comp_phases_first"):
            # components configured before the system phases are (re)defined; configurations may name phases that are
            # not (or not yet / no longer) defined - such a component is simply never listed
            if shape.get("redefine_phases"):
                sysobj.set_sys_phases({**{p: 1.0 for p in shape["redefine_phases"]}})
            sysobj.set_sys_phases(dict(durations))
    return sysobj, info, durations


def finish(sysobj, info, shape):
    """Delete the nodes flagged ``dummy`` (leaves a hole in the node numbering: the iterate vectors become longer than the
    number of components) -> the shape restricted to the live nodes."""
    dead = [n["name"] for n in shape["nodes"] if n.get("dummy")]
    for nm in dead:
        if nm in info:  # (not already deleted on the way: after_deleting)
            sysobj.del_comp(nm)
            info.pop(nm, None)
    if not dead:
        return shape
    return {**shape, "nodes": [n for n in shape["nodes"] if not n.get("dummy")]}


# ---------------------------------------------------------------------------------------------------
class Wrapped:
    """Context manager: in symbolic mode replace ``System._sys_init`` on this instance by one that returns an
    arbitrary iterate (fresh symbols per component and phase) with the off-flags at their own fixed point, and put the
    allclose shim into *assume* mode so that only converged iterates survive."""

    def __init__(self, ctx, sysobj, depth, mode="exact", stub_warns=True, tag="", polarity=True):
        self.ctx, self.sys, self.depth, self.mode, self.stub_warns, self.tag = ctx, sysobj, depth, mode, stub_warns, tag
        self.polarity = polarity

    def __enter__(self):
        ctx, sysobj = self.ctx, self.sys
        if not ctx.symbolic:
            return self
        from . import shims
        import sysloss.components as C

        self._old_mode, self._old_hook = shims.ALLCLOSE_MODE[0], shims.ALLCLOSE_HOOK[0]
        shims.ALLCLOSE_MODE[0] = self.mode
        if self.mode == "exact":
            def hook(c):
                if c is True:
                    return True
                if c is False:
                    raise symx.Abort()
                ctx.ex.assume(c.t)
                return True

            shims.ALLCLOSE_HOOK[0] = hook
        orig_init = sysobj._sys_init
        self._orig_init = orig_init
        def sym_init(*a_, **kw_):  # signature-agnostic: a refactored _sys_init signature must not become a harness crash
            phase = a_[0] if a_ else kw_.get("phase", "")
            tag = self.tag() if callable(self.tag) else self.tag
            v0, i0, state = orig_init(*a_, **kw_)
            names = {idx: nm for nm, idx in sysobj._g.attrs["nodes"].items()}
            from .shims import SymArr

            v = SymArr([0.0] * len(v0))
            i = SymArr([0.0] * len(i0))
            for idx, nm in names.items():
                v[idx] = ctx.iter_real("v[%s]%s%s" % (nm, "@" + phase if phase else "", tag))
                i[idx] = ctx.iter_real("i[%s]%s%s" % (nm, "@" + phase if phase else "", tag))
                ctx.ex.assume((i[idx] >= 0).t)  # currents are magnitudes in every law
            if self.polarity:
                # quantifier of C01/C02/...: steady states in which every series element keeps its polarity.  The kinds
                # without a guard of their own (Source-rs, PSwitch, PMux, Rectifier-MOSFET) are constrained here; an
                # overloaded (inverting / amplifying) iterate is the subject of C03, which switches this off.
                import z3
                from .symx import zabs

                g = sysobj._g
                for idx, nm in names.items():
                    tname = g[idx]._component_type.name
                    if tname == "SOURCE":
                        vo = g[idx]._params["vo"]
                        vo_t = vo.t if hasattr(vo, "t") else z3.RealVal(str(vo))
                        ctx.ex.assume(z3.And(zabs(v[idx].t) <= zabs(vo_t), z3.Or(z3.And(vo_t >= 0, v[idx].t >= 0), z3.And(vo_t <= 0, v[idx].t <= 0))))
                    elif tname in ("PSWITCH", "PMUX", "RECTIFIER"):
                        ps = list(g.predecessor_indices(idx))
                        alts = []
                        for p_ in ps:
                            if tname == "RECTIFIER":
                                alts.append(z3.And(v[idx].t >= 0, v[idx].t <= zabs(v[p_].t)))
                            else:
                                alts.append(z3.And(zabs(v[idx].t) <= zabs(v[p_].t), z3.Or(z3.And(v[idx].t >= 0, v[p_].t >= 0), z3.And(v[idx].t <= 0, v[p_].t <= 0))))
                        ctx.ex.assume(z3.Or(*alts))
            prev = None
            for _ in range(self.depth + 4):
                try:
                    _, ostate = sysobj._fwd_prop(v, i, phase, state)
                except ValueError as e:
                    if "Unstable system" in str(e):
                        raise Unstable(str(e))
                    raise
                key = [bool(s["off"][0]) if s else None for s in ostate]
                if key == prev:
                    break
                prev, state = key, ostate
            return v, i, state

        sysobj._sys_init = sym_init
        if self.stub_warns == "bounded":
            # the real warning code, restricted to the stated bound: every quantity stays inside the documented DEFAULT
            # range (no fork per default limit); limits supplied by the harness are compared for real
            self._old_warns = orig_w = C._Component._solv_get_warns

            def bounded(self_, vi, vo, ii, io, ta, phase, phase_conf, *xa, **xk):
                from .props.c09 import quantities, exceeded, DEFAULTS
                from .ops import Not

                pw = self_._solv_pwr_loss(vi, vo, ii, io, ta, phase, phase_conf)
                q = quantities(vi, vo, ii, io, pw)
                for k in self_._get_limits():
                    ctx.assume(Not(exceeded(k, q[k], DEFAULTS[k])))
                return orig_w(self_, vi, vo, ii, io, ta, phase, phase_conf, *xa, **xk)

            C._Component._solv_get_warns = bounded
        elif self.stub_warns:
            self._old_warns = C._Component._solv_get_warns
            C._Component._solv_get_warns = lambda self_, *a, **k: ""
        return self

    def __exit__(self, *a):
        if not self.ctx.symbolic:
            return False
        from . import shims
        import sysloss.components as C

        shims.ALLCLOSE_MODE[0], shims.ALLCLOSE_HOOK[0] = self._old_mode, self._old_hook
        try:
            del self.sys._sys_init
        except AttributeError:
            pass
        if self.stub_warns:
            C._Component._solv_get_warns = self._old_warns
        return False


def run_solve(ctx, sysobj, shape, method="solve", mode="exact", stub_warns=True, tag="", polarity=True, **kw):
    """Real solve()/rail_rep() -> DataFrame; raises Unstable for the documented ValueError outcome."""
    with Wrapped(ctx, sysobj, depth_of(shape), mode=mode, stub_warns=stub_warns, tag=tag, polarity=polarity):
        try:
            return getattr(sysobj, method)(**kw)
        except ValueError as e:
            if "Unstable system" in str(e):
                raise Unstable(str(e))
            raise


# ---------------------------------------------------------------------------------------------------
COLS = {"vin": "Vin (V)", "vout": "Vout (V)", "iin": "Iin (A)", "iout": "Iout (A)", "pwr": "Power (W)",
        "loss": "Loss (W)", "eff": "Efficiency (%)", "tr": "Temp. rise (°C)", "tp": "Peak temp. (°C)",
        "energy": "24h energy (Wh)", "warn": "Warnings", "domain": "Domain", "parent": "Parent", "rail_in": "Rail in",
        "rail_out": "Rail out", "type": "Type", "group": "Group", "phase": "Phase"}


def table_rows(df):
    """-> {phase: {component name: {short key: cell}}} ; phase '' when the table has no Phase column."""
    out = {}
    cols = list(df.columns)
    for _, r in df.iterrows():
        ph = r["Phase"] if "Phase" in cols else ""
        d = {"_name": r["Component"]}
        for k, c in COLS.items():
            if c in cols:
                d[k] = r[c]
        out.setdefault(ph, {})[r["Component"]] = d
    return out


def children_of(shape, name):
    return [n["name"] for n in shape["nodes"] if name in node_parents(n)]


def is_active(info, name, phase):
    """Spec: phase activity of a list-configured component (sources/converters/regulators/switches/mux)."""
    conf = info[name]["conf"]
    kind = info[name]["kind"]
    if kind in spec.LOADS or kind not in spec.PHASED_LIST:
        return True
    if not conf or phase == "":
        return True
    return phase in conf


def load_val(info, name, phase):
    kind, P, conf = info[name]["kind"], info[name]["P"], info[name]["conf"]
    if not conf or phase == "":
        return spec.load_value(kind, P, "none")
    if phase in conf:
        return spec.load_value(kind, P, "listed", conf[phase])
    return spec.load_value(kind, P, "unlisted")


def mux_selected(info, name, rows):
    """Spec: index conditions for the mux input that is selected = first declared input whose output is live.
    -> list of Cond (one per input) and the 'none' Cond."""
    sel, none_before = [], TRUE
    for p in info[name]["parents"]:
        live = Not(IsZero(rows[p]["vout"]))
        sel.append(And(none_before, live))
        none_before = And(none_before, Not(live))
    return sel, none_before
