"""Reference model: the *documented* behaviour of every component kind, written independently of the
repo code from the class docstrings of components.py and the property statements.  Dual-mode (see ops).

Parameter dict ``P`` of a component (as given by the user, spec normalises with abs itself):
  Source  vo rs            PLoad pwr pwrs rt loss      ILoad ii iis rt loss     RLoad rs rt loss
  RLoss   rs rt            VLoss vdrop rt              Converter vo eff iq iis rt
  LinReg  vo vdrop ig iis rt   PSwitch rs ig iis rt    PMux rs(list|scalar) ig iis rt
  RectD   vdrop rt         RectM rs ig iq rt
Tabulated parameters are ``Table`` objects.
"""
import re

from .ops import (Abs, Sign, Ite, Min, Max, Eq, Ne, Le, Lt, Ge, Gt, And, Or, Not, Implies, IsZero, cond, TRUE,
                  FALSE, Sum, Div)

KINDS = ["Source", "PLoad", "ILoad", "RLoad", "RLoss", "VLoss", "Converter", "LinReg", "PSwitch", "PMux",
         "RectD", "RectM"]
LOADS = ("PLoad", "ILoad", "RLoad")
SERIES = ("RLoss", "VLoss", "PSwitch", "PMux", "RectD", "RectM")  # passive series elements
PHASED_LIST = ("Source", "Converter", "LinReg", "PSwitch", "PMux")  # take a list of active phases
TYPE_NAME = {"Source": "SOURCE", "PLoad": "LOAD", "ILoad": "LOAD", "RLoad": "LOAD", "RLoss": "SLOSS",
             "VLoss": "SLOSS", "Converter": "CONVERTER", "LinReg": "LINREG", "PSwitch": "PSWITCH",
             "PMux": "PMUX", "RectD": "RECTIFIER", "RectM": "RECTIFIER"}


class Table:
    """Tabulated parameter: io axis (strictly increasing, >= 0), vi rows (strictly increasing, > 0), z[row][col]."""

    neg_rows = False

    def __init__(self, io, vi, z, neg_rows=False):
        self.io, self.vi, self.z = list(io), list(vi), [list(r) for r in z]
        # neg_rows: the table is HANDED to the constructor the way a negative-rail datasheet table is written - vi rows
        # negative (ascending numerically, i.e. descending in magnitude); io/vi/z above stay the normalised reference view
        self.neg_rows = neg_rows

    def as_dict(self, key):
        if self.neg_rows:
            return {"vi": [-v for v in reversed(self.vi)], "io": list(self.io), key: [list(r) for r in reversed(self.z)]}
        return {"vi": list(self.vi), "io": list(self.io), key: [list(r) for r in self.z]}

    def value(self, io, vi):
        """Documented evaluation: arguments by magnitude, entries by magnitude, exact on the grid, linear
        between, clamped to the nearest edge outside."""
        io, vi = Abs(io), Abs(vi)
        if len(self.vi) == 1:
            return interp1([Abs(x) for x in self.io], [Abs(f) for f in self.z[0]], io)
        return interp2(self, io, vi)


OPAQUE_DATA = {
    "eff": [[0.55, 0.65, 0.75], [0.6, 0.7, 0.8], [0.7, 0.8, 0.9]],
    "vdrop": [[0.2, 0.3, 0.4], [0.25, 0.35, 0.45], [0.3, 0.4, 0.5]],
    "ig": [[1e-3, 2e-3, 3e-3], [2e-3, 3e-3, 4e-3], [4e-3, 5e-3, 6e-3]],
}


class OpaqueTable(Table):
    """A tabulated parameter abstracted to 'some function of (|io|, |vi|) with values in the valid range'
    (assume-guarantee: C10 proves that a real table is such a function; the range is the validity predicate of the
    constructor).  Symbolic mode: an uninterpreted function, so two lookups agree exactly when their arguments do.
    Concrete mode (replay): a fixed real 3x3 table whose rows and columns all differ."""

    def __init__(self, name, key):
        self.key = key
        self.name = name
        self.io, self.vi = [0.1, 0.5, 0.9], [2.5, 5.0, 12.0]
        self.z = [list(r) for r in OPAQUE_DATA[key]]
        self._real = None

    def apply(self, x, y):
        """The value the *implementation* obtains for raw lookup arguments (x, y)."""
        from . import symx
        import z3

        ex = symx.active()
        if ex is None:
            if self._real is None:
                import sysloss.components as C

                cur, volt = [], []
                for v in self.vi:
                    cur += self.io
                    volt += len(self.io) * [v]
                self._real = C._Interp2d(cur, volt, [e for r in self.z for e in r])
            return float(self._real._interp(x, y))
        f = z3.Function("tbl_%s_%s" % (self.name, self.key), symx.R, symx.R, symx.R)
        t = f(symx.lift(x), symx.lift(y))
        rng = z3.And(t > 0, t <= 1) if self.key == "eff" else (t >= 0)
        ex.note_lemma(t, rng)
        return symx.SymReal(t)

    def value(self, io, vi):
        return self.apply(Abs(io), Abs(vi))


class OpaqueIpr:
    def __init__(self, tbl):
        self.tbl = tbl

    def _interp(self, x, y):
        return self.tbl.apply(x, y)


def interp1(xp, fp, x):
    res = fp[-1]
    for k in reversed(range(len(xp) - 1)):
        seg = fp[k] + Div((fp[k + 1] - fp[k]) * (x - xp[k]), xp[k + 1] - xp[k])
        res = Ite(Lt(x, xp[k + 1]), seg, res)
    return Ite(Le(x, xp[0]), fp[0], res)


def interp2(tbl, x, y):
    """Clamp the query into the table rectangle, then evaluate the grid interpolant there.  In symbolic
    mode the in-cell interpolant is the same contract model the shim uses (shared diagonal choice)."""
    from . import symx

    xs = [Abs(v) for v in tbl.io]
    ys = [Abs(v) for v in tbl.vi]
    xc = Min(Max(x, xs[0]), xs[-1])
    yc = Min(Max(y, ys[0]), ys[-1])
    pts, vals = [], []
    # which diagonal Qhull splits a cell along is unspecified and depends on the order of the points: list them in the order the
    # constructor receives them (concrete replay only - in symbolic mode the diagonal is a free Boolean shared with the shim)
    rows = list(range(len(ys)))
    if getattr(tbl, "neg_rows", False):
        rows.reverse()
    for j in rows:
        v = ys[j]
        for i, c in enumerate(xs):
            pts.append((c, v))
            vals.append(Abs(tbl.z[j][i]))
    if symx.active() is not None:
        from .shims import GridInterp

        g = GridInterp(pts, vals)
        return g.inside_value(xc, yc)
    from scipy.interpolate import LinearNDInterpolator

    return float(LinearNDInterpolator(pts, vals)([xc], [yc])[0])


def pval(p, io, vi):
    """Value of a possibly tabulated parameter (magnitude)."""
    if isinstance(p, Table):
        return p.value(io, vi)
    return Abs(p)


# ---------------------------------------------------------------------------------------------------
def load_value(kind, P, phase_mode, phase_val=None):
    """Which value a load uses: configured (no phase conf), per-phase value, or sleep value."""
    if kind == "PLoad":
        base, sleep = Abs(P["pwr"]), Abs(P.get("pwrs", 0.0))
    elif kind == "ILoad":
        base, sleep = Abs(P["ii"]), Abs(P.get("iis", 0.0))
    else:
        base, sleep = Abs(P["rs"]), Abs(P["rs"])  # an RLoad keeps its resistance
    if phase_mode == "none":
        return base
    if phase_mode == "unlisted":
        return sleep
    return phase_val if kind == "RLoad" else Abs(phase_val) if kind == "ILoad" else phase_val


def dead_in(vi, off):
    """A component whose supply is at 0 V (or whose supplier is off)."""
    return Or(IsZero(vi), cond(bool(off)))


def vout(kind, P, vi, io, active=True, off=False, rs_sel=None):
    """Documented output voltage for input voltage vi and output current io (live or dead)."""
    if kind == "Source":
        vo = P["vo"]
        live = And(Not(IsZero(vo)), cond(active), cond(not off))
        return Ite(live, vo - Sign(vo) * Abs(P.get("rs", 0.0)) * io, 0.0)
    dead = dead_in(vi, off)
    if kind in LOADS:
        return 0.0
    if kind == "RLoss":
        return Ite(dead, 0.0, vi - Sign(vi) * Abs(P["rs"]) * io)
    if kind == "VLoss":
        return Ite(dead, 0.0, vi - Sign(vi) * pval(P["vdrop"], io, vi))
    if kind == "Converter":
        return Ite(Or(dead, cond(not active)), 0.0, P["vo"])
    if kind == "LinReg":
        v = Min(Abs(P["vo"]), Max(Abs(vi) - Abs(P.get("vdrop", 0.0)), 0.0))
        return Ite(Or(dead, cond(not active)), 0.0, Ite(Ge(P["vo"], 0.0), v, -v))
    if kind in ("PSwitch", "PMux"):
        r = Abs(P.get("rs", 0.0)) if rs_sel is None else Abs(rs_sel)
        return Ite(Or(dead, cond(not active)), 0.0, Sign(vi) * (Abs(vi) - r * io))
    if kind == "RectD":
        return Ite(dead, 0.0, Abs(vi) - 2 * pval(P["vdrop"], io, vi))
    if kind == "RectM":
        return Ite(dead, 0.0, Abs(vi) - 2 * Abs(P.get("rs", 0.0)) * io)
    raise KeyError(kind)


def keeps_polarity(kind, P, vi, io, rs_sel=None):
    """Passive series element: output has the sign of the input (rectifier: stays positive)."""
    if kind == "RLoss":
        return Gt(Abs(vi) - Abs(P["rs"]) * io, 0.0)
    if kind == "VLoss":
        return Gt(Abs(vi) - pval(P["vdrop"], io, vi), 0.0)
    if kind == "RectD":
        return Gt(Abs(vi) - 2 * pval(P["vdrop"], io, vi), 0.0)
    if kind == "RectM":
        return Ge(Abs(vi) - 2 * Abs(P.get("rs", 0.0)) * io, 0.0)
    if kind in ("PSwitch", "PMux"):
        r = Abs(P.get("rs", 0.0)) if rs_sel is None else Abs(rs_sel)
        return Ge(Abs(vi) - r * io, 0.0)
    if kind == "Source":
        return Ge(Abs(P["vo"]) - Abs(P.get("rs", 0.0)) * io, 0.0)
    return TRUE


def iin(kind, P, vi, io, active=True, off=False, lval=None):
    """Documented input current.  ``lval``: the value the load uses (see load_value)."""
    if kind == "Source":
        live = And(Not(IsZero(P["vo"])), cond(active), cond(not off))
        return Ite(live, io, 0.0)
    dead = dead_in(vi, off)
    if kind == "PLoad":
        return Ite(dead, 0.0, Div(lval, Abs(vi)))
    if kind == "ILoad":
        return Ite(dead, 0.0, Abs(lval))
    if kind == "RLoad":
        return Ite(dead, 0.0, Div(Abs(vi), lval))
    if kind in ("RLoss", "VLoss", "RectD"):
        return Ite(dead, 0.0, io)
    if kind == "Converter":
        zero_out = IsZero(P["vo"])
        d = Or(dead, zero_out)
        eff = P["eff"].value(io, vi) if isinstance(P["eff"], Table) else P["eff"]
        under_load = Abs(Div(P["vo"] * io, vi * eff))
        live = Ite(IsZero(io), Abs(P.get("iq", 0.0)), under_load)
        if not active:
            live = Abs(P.get("iis", 0.0))
        return Ite(d, 0.0, live)
    if kind in ("LinReg", "PSwitch", "PMux"):
        live = io + pval(P.get("ig", 0.0), io, vi)
        if not active:
            live = Abs(P.get("iis", 0.0))
        return Ite(dead, 0.0, live)
    if kind == "RectM":
        return Ite(dead, 0.0, Ite(IsZero(io), Abs(P.get("iq", 0.0)), io + pval(P.get("ig", 0.0), io, vi)))
    raise KeyError(kind)


def _nz(x, dead):
    """Denominator that is only used on the live side: replace 0 by 1 on the dead side so that the term
    is total (avoids spurious division-by-zero forks in the oracle)."""
    from .symx import SymReal

    if isinstance(x, SymReal):
        return Ite(dead, 1.0, x)
    return x if x != 0 else 1.0


# ---------------------------------------------------------------------------------------------------
def valid(kind, P):
    """Documented validity predicate of the constructor arguments (True = must be accepted)."""
    if kind == "RLoad":
        return Not(IsZero(P["rs"]))
    if kind == "Converter":
        e = P["eff"]
        if isinstance(e, OpaqueTable):
            return TRUE
        if isinstance(e, Table):
            return And(*[And(Gt(z, 0.0), Le(z, 1.0)) for row in e.z for z in row])
        return And(Gt(e, 0.0), Le(e, 1.0))
    if kind == "LinReg":
        c = Lt(Abs(P.get("vdrop", 0.0)), Abs(P["vo"]))
        g = P.get("ig", 0.0)
        if isinstance(g, Table) and not isinstance(g, OpaqueTable):
            c = And(c, *[Ge(z, 0.0) for row in g.z for z in row])
        return c
    if kind in ("PSwitch", "PMux", "RectM"):
        g = P.get("ig", 0.0)
        if isinstance(g, Table) and not isinstance(g, OpaqueTable):
            return And(*[Ge(z, 0.0) for row in g.z for z in row])
    return TRUE


APPLICABLE_RE = re.compile(r"The following limits apply:\s*([a-z, ]+)")


def documented_limits(cls):
    """Applicable-limit set parsed from the class docstring (the documentation is the oracle)."""
    m = APPLICABLE_RE.search(cls.__doc__ or "")
    return [x.strip() for x in m.group(1).split(",") if x.strip()] if m else None
