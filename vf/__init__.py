"""Verification framework for geddy11/sysloss: solver-based checking of the real code."""
