"""Harness context, instance runner, replay, known findings, evidence.

A *harness* is a plain function ``h(ctx, **params)`` that calls the real sysloss code.  In symbolic
mode ``ctx.real()`` hands out proxies and ``ctx.check()`` poses solver queries under the current path
condition; in concrete mode (replay) the same function runs on floats taken from a solver model against
the unshimmed package.
"""
import fnmatch
import hashlib
import importlib
import json
import os
import subprocess
import sys
import time
import traceback
from fractions import Fraction

try:
    sys.set_int_max_str_digits(0)
except AttributeError:
    pass
VERIF = os.path.dirname(os.path.dirname(os.path.abspath(__file__)))
REPLAY_DIR = os.path.join(VERIF, "replays")
EVID_DIR = os.environ.get("VERIF_EVIDENCE_DIR") or os.path.join(VERIF, "evidence")  # override only used when evaluating seeded changes
KNOWN = os.path.join(VERIF, "known_findings.json")

EXIT_OK, EXIT_VIOLATION, EXIT_INCONCLUSIVE, EXIT_REPRODUCED = 0, 1, 2, 10


class Instance:
    def __init__(self, prop, harness, params=None, uf=False, name=None, cover=(), max_paths=4000,
                 rlimit=20_000_000, refine_rlimit=60_000_000, weight=1, time_limit=None):
        self.prop = prop
        self.harness = harness  # "module:function" below vf.props
        self.params = params or {}
        self.uf = uf
        self.name = name or (harness + "/" + ",".join("%s=%s" % kv for kv in sorted(self.params.items())))
        self.cover = list(cover)
        self.max_paths = max_paths
        self.rlimit = rlimit
        self.refine_rlimit = refine_rlimit
        self.weight = weight
        self.time_limit = time_limit

    def as_dict(self):
        return dict(self.__dict__)


def load_harness(h):
    mod, fn = h.split(":")
    return getattr(importlib.import_module("vf.props." + mod), fn)


# ---------------------------------------------------------------------------------------------------
class HarnessError(Exception):
    pass


class Skip(Exception):
    """Concrete replay left the assumed region."""


class ConcreteCtx:
    """Replay mode: floats from a model, unshimmed package, oracle evaluated with tolerances."""

    symbolic = False

    def __init__(self, model, choices):
        self.model = model
        self.choices = choices
        self.failed = []  # (label, key)
        self.checked = []
        self.notes = []

    def real(self, name, **kw):
        v = self.model.get(name)
        if v is None:
            return float(kw.get("default", 0.0))
        return float(Fraction(v))

    def iter_real(self, name):
        return None

    def choice(self, name, n):
        return int(self.choices.get(name, 0))

    def boolean(self, name):
        return bool(self.choices.get(name, 0))

    def assume(self, c):
        from .ops import cond

        if not cond(c).t:
            raise Skip("assumption does not hold concretely")

    def nice(self, x, cands):
        pass

    def check(self, label, c, key=None, info=None):
        from .ops import cond

        c = cond(c)
        self.checked.append(label)
        if not c.t:
            self.failed.append((label, key or label, info))
        return bool(c.t)

    def cover(self, label):
        pass

    def probe(self, label, key=None, info=None):
        pass

    def note(self, k):
        self.notes.append(k)

    def fail(self, label, key=None, info=None):
        self.failed.append((label, key or label, info))


class SymCtx:
    symbolic = True

    def __init__(self, inst, ex):
        self.inst = inst
        self.ex = ex
        self.reals = {}
        self.choices = {}
        self.covered = {}
        self.notes = {}
        self.checks = {}  # label -> [n_unsat, n_sat, n_unknown]
        self.reproduced = {}  # key -> finding
        self.unreproduced = []
        self.attempts = {}
        self.nice_terms = []
        self.samples = []

    # called at every path start
    def _reset_path(self):
        self.reals_path = []
        self.nice_terms = []
        self.path_choices = {}

    def real(self, name, **kw):
        import z3
        from .symx import SymReal

        t = z3.Real(name)
        self.reals[name] = t
        return SymReal(t)

    def iter_real(self, name):
        import z3
        from .symx import SymReal

        return SymReal(z3.Real(name))

    def choice(self, name, n):
        import z3
        from .symx import SymBool

        t = z3.Int(name)
        self.choices[name] = t
        self.ex.assume(z3.And(t >= 0, t < n))
        for k in range(n - 1):
            if SymBool(t == k):
                self.path_choices[name] = k
                return k
        self.path_choices[name] = n - 1
        return n - 1

    def boolean(self, name):
        return bool(self.choice(name, 2))

    def assume(self, c):
        from .ops import cond

        self.ex.assume(cond(c).t)

    def nice(self, x, cands):
        """Preferred concrete values of an input; used only when searching for a replayable witness."""
        if hasattr(x, "t"):
            self.nice_terms.append((x.t, list(cands)))

    def cover(self, label):
        self.covered[label] = self.covered.get(label, 0) + 1

    def note(self, k):
        self.notes[k] = self.notes.get(k, 0) + 1

    def fail(self, label, key=None, info=None):
        from .ops import FALSE

        return self.check(label, FALSE, key=key, info=info)

    def check(self, label, c, key=None, info=None):
        from .ops import cond
        import z3

        c = cond(c)
        st = self.checks.setdefault(label, [0, 0, 0])
        verdict, model = self.ex.prove(c.t)
        if verdict == "unsat":
            st[0] += 1
            return True
        if verdict == "unknown":
            st[2] += 1
            return True
        st[1] += 1
        k = key or label
        # a key that already has a reproduced witness needs no further model search; cap failed attempts
        if k in self.reproduced or self.attempts.get(k, 0) >= 2:
            return False
        self.attempts[k] = self.attempts.get(k, 0) + 1
        from .ops import MARGINS
        from .symx import lift

        neg = z3.Not(_zb(c.t))
        nrs = [_zb(c.nr)] + [z3.substitute(_zb(c.nr), (lift(MARGINS[0]), lift(mg))) for mg in MARGINS[1:]]
        soft = list(self.nice_terms)
        cand = {"label": label, "key": k, "info": info, "choices": dict(self.path_choices)}
        tried = []
        gens = [(lambda nr=nr: self.ex.more_models(neg, [nr], soft)) for nr in nrs] + [lambda: self.ex.more_models(neg, [], soft),
                                                                                    lambda: [model]]
        for g in gens:
            for m in g():
                md = self._model_dict(m)
                path, code, txt = replay_model(self.inst, cand, md)
                tried.append({"model": md["reals"], "code": code, "out": txt[-300:]})
                if code == EXIT_REPRODUCED:
                    self.reproduced[k] = {"label": label, "key": k, "replay": path, "info": info, "model": md,
                                          "output": txt[-600:]}
                    return False
                try:
                    os.remove(path)
                except OSError:
                    pass
        self.unreproduced.append({"label": label, "key": k, "info": info, "tried": tried})
        return False

    def probe(self, label, key=None, info=None):
        """A path without real-number semantics (a law divided by zero: numpy goes on with inf / nan): decided on ONE concrete
        witness of the path condition, run through the unmodified float code by the harness's concrete branch - weaker than a
        solver verdict (one sample per path) and counted separately in the evidence."""
        st = self.checks.setdefault(label, [0, 0, 0])
        k = key or label
        r, m = self.ex.feasible()
        if m is None:
            st[2] += 1
            return
        cand = {"label": label, "key": k, "info": info, "choices": dict(self.path_choices)}
        soft = list(self.nice_terms)
        import z3

        models = list(self.ex.more_models(z3.BoolVal(True), [], soft)) or [m]
        for mm in models[:2]:
            md = self._model_dict(mm)
            path, code, txt = replay_model(self.inst, cand, md)
            if code == EXIT_REPRODUCED:
                st[1] += 1
                self.reproduced[k] = {"label": label, "key": k, "replay": path, "info": info, "model": md, "output": txt[-600:]}
                return
            try:
                os.remove(path)
            except OSError:
                pass
        st[0] += 1
        self.notes["decided-on-concrete-witness"] = self.notes.get("decided-on-concrete-witness", 0) + 1

    def _model_dict(self, m):
        import z3

        d = {}
        for name, t in self.reals.items():
            v = m.eval(t, model_completion=True)
            if z3.is_rational_value(v):
                d[name] = "%s/%s" % (v.numerator_as_long(), v.denominator_as_long())
            elif z3.is_algebraic_value(v):
                d[name] = str(Fraction(v.as_decimal(20).rstrip("?")))
            else:
                d[name] = "0"
        ch = {}
        for name, t in self.choices.items():
            v = m.eval(t, model_completion=True)
            ch[name] = v.as_long() if z3.is_int_value(v) else 0
        return {"reals": d, "choices": ch}


def _zb(x):
    import z3

    return x if isinstance(x, z3.ExprRef) else z3.BoolVal(bool(x))


# ---------------------------------------------------------------------------------------------------
def run_instance(d):
    """Worker entry: explore one harness instance symbolically, replay candidates concretely."""
    t0 = time.time()
    inst = Instance(**{k: d[k] for k in ("prop", "harness", "params", "uf", "name", "cover", "max_paths",
                                           "rlimit", "refine_rlimit", "weight")})
    out = {"name": inst.name, "prop": inst.prop, "harness": inst.harness, "params": inst.params, "uf": inst.uf,
           "errors": [], "findings": [], "unreproduced": [], "bound_hit": False}
    import signal

    def _alarm(signum, frame):
        raise TimeoutError("instance exceeded its wall-clock budget of %ds" % limit)

    limit = int(d.get("time_limit") or os.environ.get("VERIF_INSTANCE_LIMIT", "1500"))
    try:
        signal.signal(signal.SIGALRM, _alarm)
        signal.alarm(limit)
    except (ValueError, AttributeError):
        pass
    try:
        from . import shims, symx

        out["shims"] = list(shims.install())
        fn = load_harness(inst.harness)
        ex = symx.Explorer(uf=inst.uf, rlimit=inst.rlimit, max_paths=inst.max_paths,
                           refine_rlimit=inst.refine_rlimit)
        ctx = SymCtx(inst, ex)
        path_outcomes = {}

        import copy

        from . import pstate

        for mn in pstate.MODS:
            importlib.import_module(mn)
        pstate.snapshot()

        def body():
            ctx._reset_path()
            pstate.restore()  # each path starts from the package state of a fresh interpreter
            # a private copy per path: code under test must not be able to change the instance description that a
            # replay file is later written from (a seeded change did mutate a limits list in place)
            return fn(ctx, **copy.deepcopy(inst.params))

        def on_path(res):
            kind, val = res
            if kind == "exc":
                if isinstance(val, Skip):
                    raise symx.Abort()
                tb = "".join(traceback.format_exception(type(val), val, val.__traceback__)[-4:])
                frames = traceback.extract_tb(val.__traceback__)
                in_repo = any("/sysloss/" in f.filename for f in frames)
                from .symx import NonFinite

                if isinstance(val, RuntimeError) and "Steady-state not achieved" in str(val):
                    # the documented outcome "no convergence within maxiter" is never a crash, wherever a harness lets it escape
                    path_outcomes["documented:RuntimeError"] = path_outcomes.get("documented:RuntimeError", 0) + 1
                    return
                # a call INTO one of the harness's own wrappers that fails on its signature leaves no frame of the wrapper
                wrapper_sig = isinstance(val, TypeError) and any(
                    w in str(val) for w in ("<locals>.", "<lambda>()", "sym_init()", "bounded()"))
                if not isinstance(val, NonFinite) and not getattr(val, "_contract_model", False) and (
                        not in_repo or frames[-1].filename.startswith(VERIF) or wrapper_sig):
                    # raised by the harness / oracle / a shim, not by the code under test
                    raise HarnessError("%s: %r\n%s" % (type(val).__name__, val, tb))
                # an exception the harness did not expect: candidate "crash" violation, to be replayed
                ctx.check("no-unexpected-exception", False, key="crash/%s" % type(val).__name__,
                          info={"exception": repr(val)[:300], "trace": tb[-1500:]})
                path_outcomes["exc:" + type(val).__name__] = path_outcomes.get("exc:" + type(val).__name__, 0) + 1
            else:
                path_outcomes["ok"] = path_outcomes.get("ok", 0) + 1
                if len(ctx.samples) < 2:
                    r, m = ex.feasible()
                    if m is not None:
                        ctx.samples.append({"path": ex.stats.paths, "witness": ctx._model_dict(m)["reals"]})

        ex.explore(body, on_path)
        out["stats"] = ex.stats.as_dict()
        out["bound_hit"] = ex.bound_hit
        out["checks"] = ctx.checks
        out["covered"] = ctx.covered
        out["notes"] = ctx.notes
        out["outcomes"] = path_outcomes
        out["samples"] = ctx.samples
        out["missing_cover"] = [c for c in inst.cover if not ctx.covered.get(c)]
        out["findings"] = list(ctx.reproduced.values())
        # an unreproduced candidate only matters when no witness of the same key reproduced
        out["unreproduced"] = [u for u in ctx.unreproduced if u["key"] not in ctx.reproduced]
    except Exception as e:  # noqa: BLE001
        out["errors"].append("".join(traceback.format_exception(type(e), e, e.__traceback__))[-3000:])
    try:
        signal.alarm(0)
    except (ValueError, AttributeError):
        pass
    out["wall_s"] = round(time.time() - t0, 2)
    return out


def replay_model(inst, cand, m):
    os.makedirs(os.path.join(REPLAY_DIR, inst.prop), exist_ok=True)
    doc = {"property": inst.prop, "harness": inst.harness, "params": inst.params, "label": cand["label"],
           "key": cand["key"], "model": m["reals"], "choices": {**m.get("choices", {}), **cand.get("choices", {})},
           "info": cand.get("info"), "instance": inst.name,
           "how": "cd /verif && ./check %s --replay <this file>   (runs the unmodified package on these floats)" % inst.prop}
    h = hashlib.sha1(json.dumps(doc, sort_keys=True, default=str).encode()).hexdigest()[:12]
    path = os.path.join(REPLAY_DIR, inst.prop, "%s_%s.json" % (cand["key"].replace("/", "_").replace("*", "x")[:60], h))
    with open(path, "w") as f:
        json.dump(doc, f, indent=1, default=str)
    p = subprocess.run([sys.executable, "-m", "vf.cli", inst.prop, "--replay", path], cwd=VERIF,
                       capture_output=True, text=True, timeout=600)
    return path, p.returncode, p.stdout + p.stderr


def do_replay(path, verbose=True):
    """Concrete replay of a saved model against the unshimmed package.  Exit 10 when reproduced."""
    doc = json.load(open(path))
    fn = load_harness(doc["harness"])
    ctx = ConcreteCtx(doc["model"], doc.get("choices", {}))
    import warnings
    import numpy as np

    warnings.simplefilter("ignore")
    np.seterr(divide="raise", invalid="raise")  # a numpy inf/nan becomes FloatingPointError
    try:
        fn(ctx, **doc["params"])
    except Skip as e:
        if verbose:
            print("replay: not applicable (%s)" % e)
        return EXIT_OK
    except Exception as e:  # noqa: BLE001
        ename = "NonFinite" if isinstance(e, (ZeroDivisionError, FloatingPointError)) else type(e).__name__
        if doc["label"] == "no-unexpected-exception" and doc["key"] == "crash/%s" % ename:
            if verbose:
                print("replay: reproduced crash %r" % (e,))
                print("VIOLATION property=%s replay=%s" % (doc["property"], path))
            return EXIT_REPRODUCED
        if verbose:
            print("replay: harness raised %r" % (e,))
            traceback.print_exc()
        return EXIT_OK
    for label, key, info in ctx.failed:
        if label == doc["label"] and key == doc["key"]:
            if verbose:
                print("replay: check %r (key %s) fails concretely: %s" % (label, key, info))
                print("VIOLATION property=%s replay=%s" % (doc["property"], path))
            return EXIT_REPRODUCED
    if verbose:
        print("replay: not reproduced (checked %d, failed %r)" % (len(ctx.checked), ctx.failed[:3]))
    return EXIT_OK


# ---------------------------------------------------------------------------------------------------
def load_known():
    try:
        return json.load(open(KNOWN))["findings"]
    except FileNotFoundError:
        return []


def match_known(known, prop, key):
    for k in known:
        if k["property"] == prop and k.get("status") == "open" and fnmatch.fnmatchcase(key, k["key"]):
            return k
    return None


def _child(d, conn):
    try:
        conn.send(run_instance(d))
    except BaseException as e:  # noqa: BLE001 - the parent must always get an answer
        conn.send(_dead_result(d, "worker failed: %r" % (e,)))
    finally:
        conn.close()


def _dead_result(d, why):
    return {"name": d["name"], "prop": d["prop"], "harness": d["harness"], "params": d["params"], "uf": d.get("uf"),
            "errors": [why], "findings": [], "unreproduced": [], "bound_hit": False, "stats": {}, "checks": {}}


HARD_GRACE = int(os.environ.get("VERIF_HARD_GRACE", "120"))  # seconds past an instance's own wall-clock budget before the parent kills its process


def _run_parallel(dicts, jobs):
    """One fresh process per instance (deterministic solver state), at most ``jobs`` at a time.  The instance's own SIGALRM budget
    only fires between Python bytecodes; a single solver call without a cancellation point (z3's simplex on huge rationals has
    none: neither rlimit nor timeout stop it) is ended by the parent, and the instance is reported as inconclusive."""
    import multiprocessing as mp
    from multiprocessing.connection import wait

    ctxm = mp.get_context("spawn")
    pending, running, results = list(dicts), [], []
    default = int(os.environ.get("VERIF_INSTANCE_LIMIT", "1500"))
    while pending or running:
        while pending and len(running) < jobs:
            d = pending.pop(0)
            rx, tx = ctxm.Pipe(duplex=False)
            pr = ctxm.Process(target=_child, args=(d, tx), daemon=True)
            pr.start()
            tx.close()
            running.append((pr, rx, d, time.time(), int(d.get("time_limit") or default) + HARD_GRACE))
        ready = set(wait([r[1] for r in running], timeout=1.0))
        still = []
        for pr, rx, d, t0, lim in running:
            if rx in ready:
                try:
                    results.append(rx.recv())
                except (EOFError, OSError):
                    results.append(_dead_result(d, "worker died without a result (exit code %r)" % (pr.exitcode,)))
                rx.close()
                pr.join(5)
            elif time.time() - t0 > lim:
                pr.kill()
                pr.join(5)
                rx.close()
                results.append(_dead_result(d, "TimeoutError: killed after %ds: a solver call did not return within the instance's budget "
                                               "(no cancellation point)" % int(time.time() - t0)))
            else:
                still.append((pr, rx, d, t0, lim))
        running = still
    return results


def run_property(prop, tier, instances, meta, seed=0, jobs=None):
    """Run all instances (process pool), print the verdict lines, write the evidence, return exit code."""
    import multiprocessing as mp

    t0 = time.time()
    jobs = jobs or int(os.environ.get("VERIF_JOBS", "0")) or min(16, os.cpu_count() or 4)
    dicts = [i.as_dict() for i in instances]
    dicts.sort(key=lambda d: -d["weight"])
    results = []
    if jobs == 1 or len(dicts) == 1:
        for d in dicts:
            results.append(run_instance(d))
    else:
        results = _run_parallel(dicts, min(jobs, len(dicts)))
    results.sort(key=lambda r: r["name"])
    known = load_known()
    violations, known_hit, inconclusive = [], {}, []
    tot = {}
    for r in results:
        for e in r["errors"]:
            inconclusive.append("%s: harness error: %s" % (r["name"], e.strip().splitlines()[-1] if e.strip() else e))
        if r.get("bound_hit"):
            inconclusive.append("%s: path bound exceeded" % r["name"])
        for mc in r.get("missing_cover", []):
            inconclusive.append("%s: vacuity: class %r never reached" % (r["name"], mc))
        st = r.get("stats", {})
        for k, v in st.items():
            tot[k] = tot.get(k, 0) + v
        if st.get("xcheck_disagree", 0):
            inconclusive.append("%s: z3 and cvc5 disagree on %d sampled queries" % (r["name"], st["xcheck_disagree"]))
        if st.get("unknown", 0) or st.get("refined_unknown", 0):
            unk = sum(c[2] for c in r.get("checks", {}).values())
            if unk or st.get("refined_unknown", 0):
                inconclusive.append("%s: solver returned unknown on %d property queries" % (r["name"], unk + st.get("refined_unknown", 0)))
        for f in r["findings"]:
            k = match_known(known, prop, f["key"])
            if k:
                known_hit.setdefault(k["key"], (k, []))[1].append(f)
            else:
                violations.append((r, f))
        for u in r["unreproduced"]:
            inconclusive.append("%s: candidate for %r (key %s) did not reproduce concretely" % (r["name"], u["label"], u["key"]))
    for key, (k, fs) in sorted(known_hit.items()):
        print("KNOWN-FINDING: property=%s %s [key=%s, %d witness(es), e.g. %s]" % (prop, k["what"], key, len(fs), fs[0]["replay"]))
    seen = set()
    for r, f in violations:
        if (f["key"]) in seen:
            continue
        seen.add(f["key"])
        print("VIOLATION property=%s replay=%s" % (prop, f["replay"]))
        print("  instance=%s check=%s key=%s info=%s" % (r["name"], f["label"], f["key"], json.dumps(f.get("info"), default=str)[:400]))
    for line in inconclusive[:40]:
        print("INCONCLUSIVE: property=%s %s" % (prop, line))
    wall = time.time() - t0
    write_evidence(prop, tier, seed, results, meta, tot, wall, len(seen), sorted(known_hit), inconclusive)
    n_checks = sum(sum(c[0] + c[1] + c[2] for c in r.get("checks", {}).values()) for r in results)
    print("%s %s: %d instances, %d paths, %d property queries (%d unsat), %d feasibility queries, solver %.1fs, wall %.1fs"
          % (prop, tier, len(results), tot.get("paths", 0), n_checks, tot.get("unsat", 0) + tot.get("refined_unsat", 0),
             tot.get("feas_queries", 0), tot.get("solver_s", 0.0), wall))
    if seen:
        return EXIT_VIOLATION
    if inconclusive:
        return EXIT_INCONCLUSIVE
    return EXIT_OK


def write_evidence(prop, tier, seed, results, meta, tot, wall, n_viol, known_keys, inconclusive):
    os.makedirs(EVID_DIR, exist_ok=True)
    obligations = 0
    discharged = 0
    per_label = {}
    for r in results:
        for lab, c in r.get("checks", {}).items():
            obligations += sum(c)
            discharged += c[0]
            pl = per_label.setdefault(lab, [0, 0, 0])
            for i in range(3):
                pl[i] += c[i]
    paths = tot.get("paths", 0)
    nontrivial = sum(1 for r in results for lab, c in r.get("checks", {}).items() if sum(c))
    samples = []
    for r in results:
        for s in r.get("samples", [])[:1]:
            samples.append({"instance": r["name"], "path_witness": s["witness"]})
        if len(samples) >= 6:
            break
    if not samples:
        samples = [{"instance": r["name"]} for r in results[:3]]
    shims = sorted({s for r in results for s in r.get("shims", [])})
    cov = {
        "explanation": meta.get("explanation", ""),
        "functions_encoded": meta.get("functions", []),
        "bounds": meta.get("bounds", ""),
        "outside_claim": meta.get("outside", ""),
        "instances": len(results),
        "paths_explored": paths,
        "paths_pruned": tot.get("aborted", 0),
        "obligations": obligations,
        "discharged": discharged,
        "queries": {"feasibility": tot.get("feas_queries", 0), "property": tot.get("prove_queries", 0),
                    "unsat": tot.get("unsat", 0), "sat_exact": tot.get("sat", 0) + tot.get("refined_sat", 0),
                    "uf_sat_refined_unsat": tot.get("refined_unsat", 0),
                    "unknown": tot.get("unknown", 0) + tot.get("refined_unknown", 0),
                    "cvc5_cross_checked_agree": tot.get("xcheck_agree", 0), "cvc5_cross_checked_disagree": tot.get("xcheck_disagree", 0),
                    "cvc5_cross_checked_unknown": tot.get("xcheck_unknown", 0)},
        "solver_s": round(tot.get("solver_s", 0.0), 2),
        "per_check": {k: {"unsat": v[0], "sat": v[1], "unknown": v[2]} for k, v in sorted(per_label.items())},
        "path_classes_covered": _merge_counts(r.get("covered", {}) for r in results),
        "path_outcomes": _merge_counts(r.get("outcomes", {}) for r in results),
        "notes": _merge_counts(r.get("notes", {}) for r in results),
        "evaluations": max(paths, 1),
        "distinct_nontrivial": max(nontrivial, 0),
        "rule": "one evaluation = one feasible execution path of the real code explored symbolically; "
                "distinct_nontrivial = number of (instance, check label) pairs on which at least one solver "
                "obligation was posed",
        "samples": samples,
        "instance_list": [{"name": r["name"], "paths": r.get("stats", {}).get("paths", 0),
                           "wall_s": r.get("wall_s"), "uf": r.get("uf")} for r in results],
        "shims": shims,
        "known_findings_hit": known_keys,
        "inconclusive": inconclusive[:40],
        "checker_cmd": "cd /verif && ./check %s --tier %s" % (prop, tier),
        "trusted_base": ["z3 4.x/5.1 (python wheel)", "vf.symx proxies and vf.shims contract models",
                         "vf.spec reference oracle", "CPython, pandas, rustworkx (concrete data only)"],
        "exhaustive": False,
    }
    doc = {"property_id": prop, "tier": tier, "seed": int(seed), "level": "other", "coverage": cov,
           "assumptions": meta.get("assumptions", []), "wall_s": round(wall, 2), "violations": n_viol}
    with open(os.path.join(EVID_DIR, "%s.json" % prop), "w") as f:
        json.dump(doc, f, indent=1, default=str)


def _merge_counts(ds):
    out = {}
    for d in ds:
        for k, v in d.items():
            out[k] = out.get(k, 0) + v
    return out
