"""Environment shims: rebind names in the module namespaces of sysloss.components / sysloss.system so
that proxies never reach C code.  The repo source is not edited.  Every shim delegates to the real
object when no proxy is involved.  The list returned by ``install()`` goes into every evidence file.
"""
import builtins
import math

import numpy as _np
import z3

from . import symx
from .symx import SymReal, SymBool, lift, zabs, zsign, mk_mul, mk_div

NAN = float("nan")


def _has_sym(x):
    if isinstance(x, (SymReal, SymBool)):
        return True
    if isinstance(x, SymArr):
        return any(_has_sym(e) for e in x.data)
    if isinstance(x, (list, tuple)):
        return any(_has_sym(e) for e in x)
    return False


def _flat(x):
    if isinstance(x, SymArr):
        x = x.data
    if isinstance(x, (list, tuple)):
        out = []
        for e in x:
            out += _flat(e)
        return out
    if isinstance(x, _np.ndarray):
        return x.reshape(-1).tolist()
    return [x]


class SymArr:
    """Minimal stand-in for an ndarray that holds proxies (nested lists)."""

    def __init__(self, data):
        self.data = list(data.data) if isinstance(data, SymArr) else list(data)

    @property
    def shape(self):
        sh = []
        d = self.data
        while isinstance(d, (list, tuple)):
            sh.append(len(d))
            d = d[0] if d else None
        return tuple(sh)

    def reshape(self, *a):
        if a in ((1, -1), ((1, -1),)):
            return SymArr([_flat(self.data)])
        if a in ((-1,), ((-1,),)):
            return SymArr(_flat(self.data))
        if len(a) == 1 and isinstance(a[0], (tuple, list)):
            a = tuple(a[0])
        if len(a) == 2 and all(isinstance(k, int) for k in a):
            flat = _flat(self.data)
            r, c = a
            if r == -1 and c > 0 and len(flat) % c == 0:
                r = len(flat) // c
            if c == -1 and r > 0 and len(flat) % r == 0:
                c = len(flat) // r
            if r * c != len(flat):
                e = ValueError("cannot reshape array of size %d into shape %r" % (len(flat), (r, c)))  # as numpy does
                e._contract_model = True
                raise e
            return SymArr([flat[j * c:(j + 1) * c] for j in range(r)])
        raise TypeError("SymArr.reshape%r not modelled" % (a,))

    def tolist(self):
        return list(self.data)

    def __getitem__(self, k):
        if isinstance(k, tuple) and len(k) == 2 and any(isinstance(e, slice) for e in k):
            # 2-D basic indexing a[rows, cols] with slices / ints (numpy semantics on nested lists)
            rk, ck = k
            rows = self.data[rk] if isinstance(rk, slice) else [self.data[rk]]
            cut = [(list(r)[ck] if isinstance(ck, slice) else list(r)[ck]) for r in rows]
            if not isinstance(rk, slice):
                cut = cut[0]
            return SymArr(cut) if isinstance(cut, list) else cut
        if isinstance(k, (list, tuple, _np.ndarray)):
            return SymArr([self.data[int(j)] for j in k])
        r = self.data[k]
        return SymArr(r) if isinstance(r, list) else r

    def __setitem__(self, k, v):
        self.data[k] = v

    def __len__(self):
        return len(self.data)

    def __iter__(self):
        return iter(self.data)

    def _ew(self, o, f):
        if isinstance(o, _np.ndarray):
            o = o.tolist()
        if isinstance(o, (SymArr, list, tuple)):
            return SymArr([f(a, b) for a, b in zip(self.data, list(o))])
        return SymArr([f(a, o) for a in self.data])

    def __add__(self, o):
        return self._ew(o, lambda a, b: a + b)

    __radd__ = __add__

    def __sub__(self, o):
        return self._ew(o, lambda a, b: a - b)

    def __rsub__(self, o):
        return self._ew(o, lambda a, b: b - a)

    def __truediv__(self, o):
        return self._ew(o, lambda a, b: a / b)

    def __neg__(self):
        return SymArr([-a for a in self.data])

    def __abs__(self):
        return SymArr([abs(a) for a in self.data])

    def __eq__(self, o):
        return self._ew(o, lambda a, b: a == b)

    def __ne__(self, o):
        return self._ew(o, lambda a, b: a != b)

    __hash__ = None

    def copy(self):
        return SymArr(list(self.data))

    def max(self):
        return _sym_max(self.data) if _has_sym(self.data) else max(self.data)

    def min(self):
        return _sym_min(self.data) if _has_sym(self.data) else min(self.data)

    def sum(self):
        s = 0.0
        for e in self.data:
            s = s + e
        return s

    def __gt__(self, o):
        return self._ew(o, lambda a, b: a > b)

    def __ge__(self, o):
        return self._ew(o, lambda a, b: a >= b)

    def __lt__(self, o):
        return self._ew(o, lambda a, b: a < b)

    def __le__(self, o):
        return self._ew(o, lambda a, b: a <= b)

    def __mul__(self, o):
        return self._ew(o, lambda a, b: a * b)

    __rmul__ = __mul__

    def __repr__(self):
        return "SymArr(%r)" % (self.data,)


def _t(x):
    return lift(x)


def _sym_min(xs):
    xs = _flat(xs)
    r = _t(xs[0])
    for e in xs[1:]:
        e = _t(e)
        r = z3.If(e < r, e, r)
    return SymReal(r)


def _sym_max(xs):
    xs = _flat(xs)
    r = _t(xs[0])
    for e in xs[1:]:
        e = _t(e)
        r = z3.If(e > r, e, r)
    return SymReal(r)


def _conj(bs):
    ts = []
    for b in _flat(bs):
        if isinstance(b, SymBool):
            ts.append(b.t)
        elif not b:
            return False
    if not ts:
        return True
    return SymBool(z3.And(*ts) if len(ts) > 1 else ts[0])


class NumpyShim:
    """``np`` as seen by sysloss.components / sysloss.system."""

    def __init__(self, log):
        self._log = log

    def __getattr__(self, k):
        return getattr(_np, k)

    # element functions
    def sign(self, x):
        if isinstance(x, SymReal):
            return SymReal(zsign(x.t))
        return _np.sign(x)

    def abs(self, x):
        if isinstance(x, SymReal):
            return abs(x)
        if isinstance(x, SymArr):
            return abs(x)
        if _has_sym(x):
            return [self.abs(e) for e in x]
        return _np.abs(x)

    absolute = abs

    def isclose(self, a, b, rtol=1e-5, atol=1e-8, **kw):
        if not (_has_sym(a) or _has_sym(b)):
            return _np.isclose(a, b, rtol=rtol, atol=atol, **kw)
        if isinstance(a, (SymArr, list)) or isinstance(b, (SymArr, list)):
            bb = b if isinstance(b, (SymArr, list)) else [b] * len(a)
            return SymArr([self.isclose(x, y, rtol, atol) for x, y in zip(list(a), list(bb))])
        x, y = _t(a), _t(b)
        return SymBool(zabs(x - y) <= _t(atol) + mk_mul(_t(rtol), zabs(y)))

    def any(self, x, *a, **kw):
        if isinstance(x, SymArr) and not _has_sym(x):
            x = x.data
        if _has_sym(x):
            ts = [b.t if isinstance(b, SymBool) else z3.BoolVal(bool(b)) for b in _flat(x)]
            return SymBool(z3.Or(*ts)) if ts else False
        return _np.any(x, *a, **kw)

    def copy(self, x):
        return x.copy() if isinstance(x, SymArr) else _np.copy(x)

    def isnan(self, x):
        if isinstance(x, SymReal):
            return False
        if isinstance(x, SymArr) or _has_sym(x):  # a real is never NaN / infinite (floats are modelled as reals)
            return SymArr([self.isnan(e) for e in list(x)])
        return _np.isnan(x)

    def isfinite(self, x):
        if isinstance(x, SymReal):
            return True
        if isinstance(x, SymArr) or _has_sym(x):
            return SymArr([self.isfinite(e) for e in list(x)])
        return _np.isfinite(x)

    def isinf(self, x):
        if isinstance(x, SymReal):
            return False
        if isinstance(x, SymArr) or _has_sym(x):
            return SymArr([self.isinf(e) for e in list(x)])
        return _np.isinf(x)

    # containers
    def zeros(self, n, *a, **kw):
        if a or kw or not isinstance(n, int):
            return _np.zeros(n, *a, **kw)
        return SymArr([0.0] * n)  # indexable / assignable / element-wise arithmetic like the 1-D float vector it replaces

    def array(self, x, *a, **kw):
        if _has_sym(x):
            return SymArr(x)
        if isinstance(x, SymArr):
            x = x.data
        return _np.array(x, *a, **kw)

    def asarray(self, x, *a, **kw):
        if _has_sym(x):
            return SymArr(x)
        if isinstance(x, SymArr):
            x = x.data
        return _np.asarray(x, *a, **kw)

    def min(self, x, *a, **kw):
        if _has_sym(x):
            return _sym_min(x)
        if isinstance(x, SymArr):
            x = x.data
        return _np.min(x, *a, **kw)

    def max(self, x, *a, **kw):
        if _has_sym(x):
            return _sym_max(x)
        if isinstance(x, SymArr):
            x = x.data
        return _np.max(x, *a, **kw)

    amax, amin = max, min

    def diff(self, x, *a, **kw):
        if _has_sym(x):
            x = list(x)
            return SymArr([x[k + 1] - x[k] for k in range(len(x) - 1)])
        return _np.diff(x, *a, **kw)

    def all(self, x, *a, **kw):
        if isinstance(x, SymArr) and not _has_sym(x):
            x = x.data
        if _has_sym(x):
            return _conj(x)
        return _np.all(x, *a, **kw)

    def sum(self, x, *a, **kw):
        if _has_sym(x):
            s = 0.0
            for e in _flat(x):
                s = s + e
            return s
        return _np.sum(x, *a, **kw)

    def multiply(self, a, b):
        if _has_sym(a) or _has_sym(b):
            return SymArr([x * y for x, y in zip(_flat(a), _flat(b))])
        return _np.multiply(a, b)

    def allclose(self, a, b, rtol=1e-5, atol=1e-8, **kw):
        if not (_has_sym(a) or _has_sym(b) or isinstance(rtol, SymReal)):
            a = a.data if isinstance(a, SymArr) else a
            b = b.data if isinstance(b, SymArr) else b
            return _np.allclose(a, b, rtol=rtol, atol=atol, **kw)
        a, b = _flat(a), _flat(b)
        if len(a) == 1 and len(b) > 1:  # numpy broadcasting of a scalar / one-element operand
            a = a * len(b)
        elif len(b) == 1 and len(a) > 1:
            b = b * len(a)
        # the "exact" reading (steady state = exact fixed point) and the assume-hook belong to the solver's convergence test only; any
        # other use of np.allclose in the package is the documented numpy predicate
        import sys as _sys

        in_solver = _sys._getframe(1).f_code.co_name == "_solve"
        mode = ALLCLOSE_MODE[0] if in_solver else "tolerance"
        ts = []
        for x, y in zip(a, b):
            x, y = _t(x), _t(y)
            if mode == "exact":
                ts.append(x == y)
            else:  # the documented numpy predicate |a-b| <= atol + rtol*|b|
                rt = _t(rtol)
                ts.append(zabs(x - y) <= _t(atol) + mk_mul(rt, zabs(y)))
        c = SymBool(z3.And(*ts)) if ts else True
        hook = ALLCLOSE_HOOK[0] if in_solver else None
        if hook is not None:
            return hook(c)
        return c

    def interp(self, x, xp, fp, *a, **kw):
        if not (_has_sym(x) or _has_sym(xp) or _has_sym(fp)):
            return _np.interp(x, xp, fp, *a, **kw)
        xp, fp = [_t(e) for e in _flat(xp)], [_t(e) for e in _flat(fp)]
        x = _t(x)
        res = fp[-1]
        for k in reversed(range(len(xp) - 1)):
            seg = fp[k] + mk_div(mk_mul(fp[k + 1] - fp[k], x - xp[k]), xp[k + 1] - xp[k])
            res = z3.If(x < xp[k + 1], seg, res)
        res = z3.If(x <= xp[0], fp[0], res)
        return SymReal(res)


ALLCLOSE_MODE = ["exact"]
ALLCLOSE_HOOK = [None]


class GridInterp:
    """Contract model of scipy.interpolate.LinearNDInterpolator on a *rectilinear grid*:
    NaN outside the convex hull; inside cell [x_i,x_i+1]x[y_j,y_j+1] the linear interpolant on one of
    the two diagonal splits of the cell, the split being a free Boolean per cell (any Delaunay
    triangulation of a grid splits each cell along a diagonal; which one Qhull picks is unspecified).
    Grid rows (y) and columns (x) are taken in the order given and must be increasing (assumed by the
    harness, stated in the evidence)."""

    def __init__(self, points, values):
        pts = list(points)
        vals = _flat(values)
        if len(pts) != len(vals):
            e = ValueError("different number of values and points")  # as scipy does
            e._contract_model = True  # part of the modelled library's behaviour, not a harness failure
            raise e
        if not (_has_sym(pts) or _has_sym(vals)):
            from scipy.interpolate import LinearNDInterpolator as L

            self._real = L(pts, vals)
            self._pts = pts
            self._vals = vals
        else:
            self._real = None
        xs = [p[0] for p in pts]
        ys = [p[1] for p in pts]

        def same(a, b):
            if isinstance(a, SymReal) and isinstance(b, SymReal):
                return a.t.eq(b.t)
            if isinstance(a, SymReal) or isinstance(b, SymReal):
                return False
            return a == b

        n_io = len(xs)
        for k in range(1, len(xs)):
            if same(xs[k], xs[0]):
                n_io = k
                break
        self.nx = n_io
        self.ny = len(xs) // n_io
        self.x = xs[:n_io]
        self.y = [ys[j * n_io] for j in range(self.ny)]
        self.f = [[vals[j * n_io + i] for i in range(n_io)] for j in range(self.ny)]
        if not _has_sym(self.y):
            # the interpolant does not depend on the order in which the points are listed: rows with concrete coordinates
            # are put in increasing order (tables written for a negative rail list their rows in decreasing magnitude)
            order = sorted(range(self.ny), key=lambda j: self.y[j])
            self.y = [self.y[j] for j in order]
            self.f = [self.f[j] for j in order]
        import hashlib

        sig = "|".join(str(_t(e).sexpr() if hasattr(_t(e), "sexpr") else e) for e in list(self.x) + list(self.y) + [e for row in self.f for e in row])
        self.id = hashlib.sha1(sig.encode()).hexdigest()[:8]

    def __call__(self, xq, yq):
        x, y = xq[0], yq[0]
        if self._real is not None and not _has_sym([x, y]):
            return self._real([x], [y])
        x_, y_ = _t(x), _t(y)
        inside = SymBool(z3.And(x_ >= _t(self.x[0]), x_ <= _t(self.x[-1]),
                                y_ >= _t(self.y[0]), y_ <= _t(self.y[-1])))
        if not inside:
            return [NAN]
        return [self.inside_value(x, y)]

    def inside_value(self, x, y):
        """Interpolant for a query inside the hull (ite over cells, no forking)."""
        x_, y_ = _t(x), _t(y)
        X = [_t(e) for e in self.x]
        Y = [_t(e) for e in self.y]
        F = [[_t(e) for e in row] for row in self.f]
        res = None
        for j in reversed(range(self.ny - 1)):
            for i in reversed(range(self.nx - 1)):
                cell = self._cell(x_, y_, X[i], X[i + 1], Y[j], Y[j + 1],
                                  F[j][i], F[j][i + 1], F[j + 1][i], F[j + 1][i + 1], i, j)
                if res is None:
                    res = cell
                else:
                    res = z3.If(z3.And(x_ <= X[i + 1], y_ <= Y[j + 1]), cell, res)
        return SymReal(res)

    def _cell(self, x, y, x0, x1, y0, y1, f00, f10, f01, f11, i, j):
        u = mk_div(x - x0, x1 - x0)
        v = mk_div(y - y0, y1 - y0)
        d = z3.Bool("diag_%s_%d_%d" % (self.id, i, j))
        a_lo = f00 + mk_mul(u, f10 - f00) + mk_mul(v, f11 - f10)
        a_hi = f00 + mk_mul(v, f01 - f00) + mk_mul(u, f11 - f01)
        b_lo = f00 + mk_mul(u, f10 - f00) + mk_mul(v, f01 - f00)
        b_hi = f11 + mk_mul(1 - u, f01 - f11) + mk_mul(1 - v, f10 - f11)
        return z3.If(d, z3.If(u >= v, a_lo, a_hi), z3.If(u + v <= 1, b_lo, b_hi))


# -- builtins injected as module globals -----------------------------------------------------------------
def s_min(*a, **kw):
    xs = a[0] if len(a) == 1 else a
    if _has_sym(xs):
        return _sym_min(list(xs))
    return builtins.min(*a, **kw)


def s_max(*a, **kw):
    xs = a[0] if len(a) == 1 else a
    if _has_sym(xs):
        return _sym_max(list(xs))
    return builtins.max(*a, **kw)


def s_isinstance(o, c):
    if isinstance(o, SymReal):
        cs = c if isinstance(c, tuple) else (c,)
        return float in cs
    return isinstance(o, c)


def s_type(*a):
    if len(a) == 1 and isinstance(a[0], SymReal):
        return float
    return type(*a)


class _IntMeta(type):
    def __instancecheck__(cls, o):
        return isinstance(o, int)

    def __subclasscheck__(cls, c):
        return issubclass(c, int)

    def __call__(cls, x=0, *a):
        if isinstance(x, SymReal):
            return 0  # only ever feeds the tqdm progress bar
        return int(x, *a)


class s_int(metaclass=_IntMeta):
    """``int`` as seen by the sysloss modules: int() of a proxy is 0, isinstance(x, int) unchanged."""


class _FloatMeta(type):
    def __instancecheck__(cls, o):
        return isinstance(o, (float, SymReal))

    def __subclasscheck__(cls, c):
        return issubclass(c, float)

    def __call__(cls, x=0.0, *a):
        if isinstance(x, SymReal):
            return x  # float() of a float is the identity
        return float(x, *a)

    def __eq__(cls, o):
        return o is float or o is cls

    def __hash__(cls):
        return hash(float)


class s_float(metaclass=_FloatMeta):
    """``float`` as seen by the sysloss modules: float(proxy) is the proxy (identity on floats); isinstance / == float unchanged."""


class _NullBar:
    total = 0

    def __init__(self, *a, **kw):
        pass

    def __enter__(self):
        return self

    def __exit__(self, *a):
        return False

    def update(self, *a):
        pass

    def close(self):
        pass


def _null(*a, **kw):
    return None


INSTALLED = []


def install():
    """Idempotent.  Returns the list of shim names (for the evidence)."""
    if INSTALLED:
        return INSTALLED
    import sysloss.components as C
    import sysloss.system as S

    log = []
    npx = NumpyShim(log)
    for mod in (C, S):
        mod.np = npx
        mod.min = s_min
        mod.max = s_max
        mod.isinstance = s_isinstance
        mod.type = s_type
        mod.int = s_int
        mod.float = s_float
    C.LinearNDInterpolator = GridInterp
    S.tqdm = _NullBar
    S.print = _null
    INSTALLED.extend([
        "np.sign/abs -> ite terms", "np.zeros(n) -> python list", "np.array/asarray -> SymArr on proxies",
        "np.allclose -> documented predicate (exact or tolerance mode)",
        "np.min/max/diff/all/sum/multiply/isnan -> list versions",
        "np.interp -> piecewise-linear clamped contract model",
        "LinearNDInterpolator -> rectilinear-grid contract model (free diagonal per cell, NaN outside hull)",
        "min/max/isinstance/type/int/float injected as module globals (proxy counts as float; float(proxy) = proxy)",
        "tqdm -> null progress bar", "rich.print -> no-op",
    ])
    return INSTALLED
