"""H family: edit histories.  Base histories are concrete lists of API calls; the LAST one or two calls are symbolic:
operation code, kind of the new component, del_childs, and every name-valued argument (target, parent(s), new name,
rail) is a solver variable indexing {every existing component name, every existing rail name, two fresh strings},
resolved with forks so that the real code always sees a concrete string.  Numeric parameters are concrete (the state is a
graph in a Rust library plus dictionaries; what the solver contributes here is the case split - see DESIGN 4/C14)."""
import copy

from . import spec

KIND_POOL = ["Source", "PLoad", "ILoad", "RLoad", "RLoss", "VLoss", "Converter", "LinReg", "PSwitch", "PMux", "RectD", "RectM"]
# the edit API only looks at the component *type* (SOURCE / LOAD / PMUX / everything else has identical child rules):
# one representative per class in the quick tier, all twelve in the thorough tier
KIND_CLASSES = ["Source", "PLoad", "Converter", "PMux", "RLoss"]
FULL = [False]


def mk(kind, name, variant=0):
    """Concrete component of the given kind (two parameter variants so that replacements are visible in results)."""
    import sysloss.components as C

    k = 1.0 + 0.25 * variant
    # variant 0 of the loads and of the converter carries a limit that every powered instance of this catalogue exceeds (a 'vi' / 'io'
    # warning), the other variants have the default limits: the Warnings cells then tell whose limits an analysis really used
    lim = {"limits": {"vi": [0.0, 1.0]}} if variant == 0 else {}
    if kind == "Source":
        return C.Source(name, vo=5.0 * k, rs=0.05 * k)
    if kind == "PLoad":
        return C.PLoad(name, pwr=0.2 * k, pwrs=0.01, **lim)
    if kind == "ILoad":
        return C.ILoad(name, ii=0.05 * k, iis=0.001, **lim)
    if kind == "RLoad":
        return C.RLoad(name, rs=120.0 * k, **lim)
    if kind == "RLoss":
        return C.RLoss(name, rs=0.2 * k)
    if kind == "VLoss":
        return C.VLoss(name, vdrop=0.1 * k)
    if kind == "Converter":
        return C.Converter(name, vo=3.3, eff=0.9 / k, iq=1e-3, iis=1e-5, **({"limits": {"io": [0.0, 1e-3]}} if variant == 0 else {}))
    if kind == "LinReg":
        return C.LinReg(name, vo=2.5, vdrop=0.2, ig=1e-3 * k, iis=1e-5)
    if kind == "PSwitch":
        return C.PSwitch(name, rs=0.1 * k, ig=1e-4, iis=1e-6)
    if kind == "PMux":
        return C.PMux(name, rs=[0.1 * k, 0.2, 0.3, 0.4], ig=1e-4)
    if kind == "RectD":
        return C.Rectifier(name, vdrop=0.3 * k)
    if kind == "RectM":
        return C.Rectifier(name, rs=0.05 * k, ig=1e-4, iq=1e-5)
    raise KeyError(kind)


def type_of(kind):
    return spec.TYPE_NAME[kind]


# ---------------------------------------------------------------------------------------------------
class Model:
    """The harness's own model of the edit semantics (spec interpreter): name -> node record."""

    def __init__(self):
        self.nodes = {}  # name -> dict(kind, variant, parents[list], rail, group, conf)
        self.phases = {}
        self.order = []

    def copy(self):
        return copy.deepcopy(self)

    def children(self, name):
        return [n for n in self.order if name in self.nodes[n]["parents"]]

    def descendants(self, name):
        out, todo = [], [name]
        while todo:
            x = todo.pop()
            for c in self.children(x):
                if c not in out:
                    out.append(c)
                    todo.append(c)
        return out

    def rails(self):
        return {n: d["rail"] for n, d in self.nodes.items() if d["rail"]}

    def resolve(self, ref):
        """A name-valued argument may be a component name or a rail name."""
        if ref in self.nodes:
            return ref
        for n, d in self.nodes.items():
            if d["rail"] and d["rail"] == ref:
                return n
        return None

    # documented acceptance rules ------------------------------------------------------------------
    def name_free(self, name, rail):
        used = set(self.nodes) | set(self.rails().values())
        if name in used:
            return False
        if rail:
            if rail == name or rail in used:
                return False
        return True

    def can_add_comp(self, parents, kind, name, rail):
        if len(parents) != len(set(parents)):
            return False
        if len(parents) > 1 and kind != "PMux":
            return False
        ps = [self.resolve(p) for p in parents]
        if any(p is None for p in ps):
            return False
        if not self.name_free(name, rail):
            return False
        if kind == "Source":
            return False
        if any(self.nodes[p]["kind"] in spec.LOADS for p in ps):
            return False
        if kind == "PMux" and any(d["kind"] == "PMux" for d in self.nodes.values()):
            return False
        return True

    def apply(self, op):
        """Apply an ACCEPTED call."""
        k = op["op"]
        if k == "add_source":
            self._add(op["name"], "Source", op.get("variant", 0), [], op.get("rail", ""), op.get("group", ""))
        elif k == "add_comp":
            ps = [self.resolve(p) for p in op["parents"]]
            rail = "" if op["kind"] in spec.LOADS else op.get("rail", "")
            self._add(op["name"], op["kind"], op.get("variant", 0), ps, rail, op.get("group", ""))
        elif k == "change_comp":
            old = op["target"]
            d = self.nodes.pop(old)
            rail = "" if op["kind"] in spec.LOADS else op.get("rail", "")
            new = {"kind": op["kind"], "variant": op.get("variant", 0), "parents": d["parents"], "rail": rail,
                   "group": op.get("group", ""), "conf": None}
            self.nodes[op["name"]] = new
            self.order[self.order.index(old)] = op["name"]
            for n, dd in self.nodes.items():
                dd["parents"] = [op["name"] if p == old else p for p in dd["parents"]]
        elif k == "del_comp":
            tgt = self.resolve(op["target"])
            if op.get("del_childs", True):
                for c in self.descendants(tgt):
                    self.nodes.pop(c)
                    self.order.remove(c)
            else:
                par = self.nodes[tgt]["parents"]
                for c in self.children(tgt):
                    new = []
                    for p in [par[0] if p == tgt else p for p in self.nodes[c]["parents"]]:
                        if p not in new:  # a mux input that coincides with another input after the splice counts once
                            new.append(p)
                    self.nodes[c]["parents"] = new
            self.nodes.pop(tgt)
            self.order.remove(tgt)
        elif k == "analyse":
            pass
        elif k == "set_sys_phases":
            self.phases = dict(op["phases"])
        elif k == "set_comp_phases":
            self.nodes[self.resolve(op["target"])]["conf"] = copy.deepcopy(op["conf"])
        else:
            raise KeyError(k)

    def _add(self, name, kind, variant, parents, rail, group):
        self.nodes[name] = {"kind": kind, "variant": variant, "parents": list(parents), "rail": rail, "group": group, "conf": None}
        self.order.append(name)

    def build_fresh(self, order=None):
        """A system built from scratch with this final structure (parents before children)."""
        from sysloss.system import System

        done, sysobj = [], None
        pending = list(order or self.order)
        guard = 0
        while pending and guard < 1000:
            guard += 1
            n = pending.pop(0)
            d = self.nodes[n]
            if any(p not in done for p in d["parents"]):
                pending.append(n)
                continue
            comp = mk(d["kind"], n, d["variant"])
            kw = {}
            if d["rail"]:
                kw["rail"] = d["rail"]
            if d["group"]:
                kw["group"] = d["group"]
            if d["kind"] == "Source":
                if sysobj is None:
                    sysobj = System("sys", comp, **kw)
                else:
                    sysobj.add_source(comp, **kw)
            else:
                sysobj.add_comp(d["parents"] if d["kind"] == "PMux" else d["parents"][0], comp=comp, **kw)
            done.append(n)
        if self.phases:
            sysobj.set_sys_phases(dict(self.phases))
        for n in done:
            if self.nodes[n]["conf"] is not None:
                sysobj.set_comp_phases(n, copy.deepcopy(self.nodes[n]["conf"]))
        return sysobj


def call(sysobj, op):
    """Perform one API call on the real system."""
    k = op["op"]
    kw = {}
    if op.get("rail"):
        kw["rail"] = op["rail"]
    if op.get("group"):
        kw["group"] = op["group"]
    if k == "add_source":
        return sysobj.add_source(mk(op.get("kind", "Source"), op["name"], op.get("variant", 0)), **kw)
    if k == "add_comp":
        ps = op["parents"]
        return sysobj.add_comp(ps if (len(ps) != 1 or op.get("as_list")) else ps[0], comp=mk(op["kind"], op["name"], op.get("variant", 0)), **kw)
    if k == "change_comp":
        return sysobj.change_comp(op["target"], comp=mk(op["kind"], op["name"], op.get("variant", 0)), **kw)
    if k == "del_comp":
        return sysobj.del_comp(op["target"], del_childs=op.get("del_childs", True))
    if k == "analyse":  # an analysis in the middle of the history (fills whatever the analyses may cache)
        return reports(sysobj)
    if k == "set_sys_phases":
        return sysobj.set_sys_phases(copy.deepcopy(op["phases"]))
    if k == "set_comp_phases":
        return sysobj.set_comp_phases(op["target"], copy.deepcopy(op["conf"]))
    raise KeyError(k)


def start(first):
    from sysloss.system import System

    kw = {}
    if first.get("rail"):
        kw["rail"] = first["rail"]
    if first.get("group"):
        kw["group"] = first["group"]
    sysobj = System("sys", mk("Source", first["name"], first.get("variant", 0)), **kw)
    m = Model()
    m._add(first["name"], "Source", first.get("variant", 0), [], first.get("rail", ""), first.get("group", ""))
    return sysobj, m


def replay_base(base):
    """Run a concrete base history -> (System, Model).  Every base call is expected to be accepted."""
    sysobj, m = start(base[0])
    for op in base[1:]:
        call(sysobj, op)
        m.apply(op)
    return sysobj, m


# ---------------------------------------------------------------------------------------------------
def pool(m):
    names = list(m.order)
    rails = [r for r in m.rails().values()]
    return names + rails + ["new1", "new2"]


def pick(ctx, tag, options):
    return options[ctx.choice(tag, len(options))]


def symbolic_call(ctx, m, tag, ops):
    """One call whose operation and arguments are solver choices -> op dict."""
    names = pool(m)
    k = pick(ctx, tag + ".op", ops)
    op = {"op": k}
    if k == "add_source":
        op["name"] = pick(ctx, tag + ".name", names)
        op["rail"] = pick(ctx, tag + ".rail", ["", "newrail"] + names[:2] + list(m.rails().values())[:1])
        op["kind"] = pick(ctx, tag + ".kind", ["Source", "PLoad"])
    elif k == "add_comp":
        op["kind"] = pick(ctx, tag + ".kind", KIND_POOL if FULL[0] else KIND_CLASSES)
        np_ = 1 + (ctx.choice(tag + ".nparents", 2) if op["kind"] in ("PMux", "Converter") else 0)
        op["parents"] = [pick(ctx, tag + ".parent%d" % j, names) for j in range(np_)]
        op["as_list"] = np_ > 1 or (op["kind"] == "PMux" and bool(ctx.choice(tag + ".aslist", 2)))
        op["name"] = pick(ctx, tag + ".name", names[:2] + names[-3:] if not FULL[0] else names)
        op["rail"] = pick(ctx, tag + ".rail", ["", "newrail"] + names[:1] + list(m.rails().values())[:1] + [op["name"]])
    elif k == "change_comp":
        op["target"] = pick(ctx, tag + ".target", names)
        op["kind"] = pick(ctx, tag + ".kind", KIND_POOL if FULL[0] else KIND_CLASSES)
        same = ctx.choice(tag + ".samename", 2)
        op["name"] = op["target"] if same else pick(ctx, tag + ".name", names)
        op["rail"] = pick(ctx, tag + ".rail", ["", "newrail"] + list(m.rails().values())[:2] + names[:1])
        op["variant"] = 1
    elif k == "del_comp":
        op["target"] = pick(ctx, tag + ".target", names)
        op["del_childs"] = bool(ctx.choice(tag + ".delchilds", 2))
    elif k == "set_sys_phases":
        op["phases"] = pick(ctx, tag + ".phases", [{"a": 1.0, "b": 2.0}, {}, {"a": 1.0}, {"N/A": 1.0, "b": 2.0}, {"x": 3.0, "y": 1.0, "z": 2.0}])
    elif k == "set_comp_phases":
        op["target"] = pick(ctx, tag + ".target", names)
        op["conf"] = pick(ctx, tag + ".conf", [["a"], {"a": 0.1}, "a", 5, {}, []])
    return op


BASES = {
    "single": [{"op": "new", "name": "S1"}],
    "chain": [{"op": "new", "name": "S1", "rail": "VIN"}, {"op": "add_comp", "parents": ["S1"], "kind": "Converter", "name": "C", "rail": "R1"},
              {"op": "add_comp", "parents": ["C"], "kind": "PLoad", "name": "L1"}, {"op": "add_comp", "parents": ["S1"], "kind": "ILoad", "name": "L2"}],
    "by-rail": [{"op": "new", "name": "S1", "rail": "VIN"}, {"op": "add_comp", "parents": ["VIN"], "kind": "LinReg", "name": "G", "rail": "R2", "group": "g1"},
                {"op": "add_comp", "parents": ["R2"], "kind": "RLoad", "name": "L"}],
    "mux": [{"op": "new", "name": "S1"}, {"op": "add_source", "name": "S2", "rail": "USB"},
            {"op": "add_comp", "parents": ["S1", "USB"], "kind": "PMux", "name": "M", "rail": "SYS"}, {"op": "add_comp", "parents": ["M"], "kind": "PLoad", "name": "L"}],
    "mux-below": [{"op": "new", "name": "S1"}, {"op": "add_comp", "parents": ["S1"], "kind": "Converter", "name": "C1"},
                  {"op": "add_comp", "parents": ["S1"], "kind": "PSwitch", "name": "W"},
                  {"op": "add_comp", "parents": ["C1", "W"], "kind": "PMux", "name": "M"}, {"op": "add_comp", "parents": ["M"], "kind": "ILoad", "name": "L"}],
    "after-delete": [{"op": "new", "name": "S1"}, {"op": "add_comp", "parents": ["S1"], "kind": "RLoss", "name": "A"},
                     {"op": "add_comp", "parents": ["A"], "kind": "Converter", "name": "B"}, {"op": "add_comp", "parents": ["B"], "kind": "PLoad", "name": "L"},
                     {"op": "del_comp", "target": "A", "del_childs": False}],
    "after-rename": [{"op": "new", "name": "S1"}, {"op": "add_comp", "parents": ["S1"], "kind": "Converter", "name": "C", "rail": "R1"},
                     {"op": "add_comp", "parents": ["C"], "kind": "PLoad", "name": "L"},
                     {"op": "change_comp", "target": "C", "kind": "LinReg", "name": "C2", "rail": "R9", "variant": 1}],
    "index-reuse": [{"op": "new", "name": "S1"}, {"op": "add_comp", "parents": ["S1"], "kind": "PSwitch", "name": "W"},
                    {"op": "add_comp", "parents": ["W"], "kind": "PLoad", "name": "L1"}, {"op": "add_comp", "parents": ["W"], "kind": "ILoad", "name": "L2"},
                    {"op": "del_comp", "target": "L1"}, {"op": "add_source", "name": "S2"}, {"op": "add_comp", "parents": ["S2"], "kind": "RLoad", "name": "L3"}],
    "phased": [{"op": "new", "name": "S1"}, {"op": "add_comp", "parents": ["S1"], "kind": "Converter", "name": "C"},
               {"op": "add_comp", "parents": ["C"], "kind": "PLoad", "name": "L"}, {"op": "set_sys_phases", "phases": {"a": 1.0, "b": 3.0}},
               {"op": "set_comp_phases", "target": "C", "conf": ["a"]}, {"op": "set_comp_phases", "target": "L", "conf": {"a": 0.3}}],
    # a phase configuration stored under the component's RAIL name (the API resolves both); later calls address it by name
    "phased-by-rail": [{"op": "new", "name": "S1", "rail": "VIN"}, {"op": "add_comp", "parents": ["S1"], "kind": "Converter", "name": "C", "rail": "R1"},
                       {"op": "add_comp", "parents": ["R1"], "kind": "PLoad", "name": "L"}, {"op": "set_sys_phases", "phases": {"a": 1.0, "b": 3.0}},
                       {"op": "set_comp_phases", "target": "R1", "conf": ["a"]}, {"op": "set_comp_phases", "target": "L", "conf": {"a": 0.3}}],
    "two-src-del": [{"op": "new", "name": "S1"}, {"op": "add_source", "name": "S2"}, {"op": "add_comp", "parents": ["S1"], "kind": "PLoad", "name": "L1"},
                    {"op": "add_comp", "parents": ["S2"], "kind": "Converter", "name": "C"}, {"op": "add_comp", "parents": ["C"], "kind": "ILoad", "name": "L2"},
                    {"op": "del_comp", "target": "S1", "del_childs": True}],
    # rustworkx re-uses the most recently freed node index: the first source is deleted, the mux lands on index 0
    "first-source-deleted-mux-at-0": [{"op": "new", "name": "S1"}, {"op": "add_source", "name": "S2"},
                                      {"op": "add_comp", "parents": ["S2"], "kind": "Converter", "name": "C"},
                                      {"op": "del_comp", "target": "S1", "del_childs": True},
                                      {"op": "add_comp", "parents": ["S2", "C"], "kind": "PMux", "name": "M", "as_list": True},
                                      {"op": "add_comp", "parents": ["M"], "kind": "ILoad", "name": "L"}],
    # analysis, then a component is MOVED (deleted and re-added under the same name below another parent: the freed node index
    # is re-used, so the name -> index registry is identical before and after), then analysed again
    "moved-leaf-after-analysis": [{"op": "new", "name": "S1"}, {"op": "add_comp", "parents": ["S1"], "kind": "Converter", "name": "C"},
                                  {"op": "add_comp", "parents": ["S1"], "kind": "LinReg", "name": "G"},
                                  {"op": "add_comp", "parents": ["C"], "kind": "PLoad", "name": "L"}, {"op": "analyse"},
                                  {"op": "del_comp", "target": "L"}, {"op": "add_comp", "parents": ["G"], "kind": "PLoad", "name": "L"}],
    # analysis, then a whole subtree is deleted and another one is built on the freed node indices; the new components have other limits
    "subtree-replaced-after-analysis": [{"op": "new", "name": "S1"}, {"op": "add_comp", "parents": ["S1"], "kind": "Converter", "name": "A"},
                                        {"op": "add_comp", "parents": ["A"], "kind": "PLoad", "name": "L1"}, {"op": "add_comp", "parents": ["A"], "kind": "ILoad", "name": "L2"},
                                        {"op": "analyse"}, {"op": "del_comp", "target": "A", "del_childs": True},
                                        {"op": "add_comp", "parents": ["S1"], "kind": "Converter", "name": "B", "variant": 1},
                                        {"op": "add_comp", "parents": ["B"], "kind": "PLoad", "name": "N1", "variant": 1},
                                        {"op": "add_comp", "parents": ["B"], "kind": "PLoad", "name": "N2"}],
    # analysis, then a component is replaced under its own name by one with other limits (same node index, same name -> index registry)
    "replaced-after-analysis": [{"op": "new", "name": "S1"}, {"op": "add_comp", "parents": ["S1"], "kind": "Converter", "name": "C"},
                                {"op": "add_comp", "parents": ["C"], "kind": "PLoad", "name": "L"}, {"op": "analyse"},
                                {"op": "change_comp", "target": "L", "kind": "PLoad", "name": "L", "variant": 1},
                                {"op": "change_comp", "target": "C", "kind": "Converter", "name": "C", "variant": 1}],
    "relinked-mux-input": [{"op": "new", "name": "S1"}, {"op": "add_source", "name": "S2"},
                           {"op": "add_comp", "parents": ["S1"], "kind": "RLoss", "name": "B"},
                           {"op": "add_comp", "parents": ["B", "S2"], "kind": "PMux", "name": "M"}, {"op": "add_comp", "parents": ["M"], "kind": "ILoad", "name": "L"},
                           {"op": "analyse"}, {"op": "del_comp", "target": "B", "del_childs": False}],
    # a mux input declared by the RAIL name of its component; that component is then replaced under its own name WITHOUT the rail
    "mux-rail-input-rail-dropped": [{"op": "new", "name": "S1"}, {"op": "add_source", "name": "S2", "rail": "USB"},
                                    {"op": "add_comp", "parents": ["USB", "S1"], "kind": "PMux", "name": "M", "rail": "SYS"},
                                    {"op": "add_comp", "parents": ["M"], "kind": "PLoad", "name": "L"}, {"op": "add_comp", "parents": ["M"], "kind": "Converter", "name": "C"},
                                    {"op": "change_comp", "target": "S2", "kind": "Source", "name": "S2", "variant": 1}],
    # three inputs; input F hangs below S1, which is itself an input declared by its rail name; F is deleted without its children, so
    # the mux is re-linked to S1 twice (once as "VBUS", once through the splice) - the two count once
    "mux3-relinked-input-by-rail": [{"op": "new", "name": "S1", "rail": "VBUS"}, {"op": "add_source", "name": "S2"},
                                    {"op": "add_comp", "parents": ["S1"], "kind": "RLoss", "name": "F"},
                                    {"op": "add_comp", "parents": ["VBUS", "F", "S2"], "kind": "PMux", "name": "M"},
                                    {"op": "add_comp", "parents": ["M"], "kind": "PLoad", "name": "L"},
                                    {"op": "del_comp", "target": "F", "del_childs": False}],
    # a freed LOW node index is re-used by a non-leaf below a parent with a HIGHER index (index order is no longer a parent-first order)
    "reused-index-subtree": [{"op": "new", "name": "S1", "rail": "VIN"}, {"op": "add_comp", "parents": ["S1"], "kind": "RLoss", "name": "X"},
                             {"op": "add_comp", "parents": ["S1"], "kind": "Converter", "name": "C", "rail": "R1"},
                             {"op": "add_comp", "parents": ["C"], "kind": "PLoad", "name": "L"}, {"op": "del_comp", "target": "X"},
                             {"op": "add_comp", "parents": ["R1"], "kind": "LinReg", "name": "G", "rail": "R2"},
                             {"op": "add_comp", "parents": ["G"], "kind": "RLoss", "name": "F"}, {"op": "add_comp", "parents": ["F"], "kind": "ILoad", "name": "L2"}],
    # X is the SECOND declared input of the mux and has another child that was added after the mux; X is deleted without its children
    "relinked-mux-input-with-sibling": [{"op": "new", "name": "S1"}, {"op": "add_source", "name": "S2", "variant": 1},
                                        {"op": "add_comp", "parents": ["S1"], "kind": "RLoss", "name": "X"},
                                        {"op": "add_comp", "parents": ["S2", "X"], "kind": "PMux", "name": "M"},
                                        {"op": "add_comp", "parents": ["M"], "kind": "RLoad", "name": "L"},
                                        {"op": "add_comp", "parents": ["X"], "kind": "ILoad", "name": "A"},
                                        {"op": "del_comp", "target": "X", "del_childs": False}],
    "mux-renamed-input": [{"op": "new", "name": "S1"}, {"op": "add_source", "name": "S2"},
                          {"op": "add_comp", "parents": ["S1", "S2"], "kind": "PMux", "name": "M"}, {"op": "add_comp", "parents": ["M"], "kind": "PLoad", "name": "L"},
                          {"op": "change_comp", "target": "S2", "kind": "Source", "name": "S2b", "variant": 1}],
}


# bases that exist for what the ANALYSES may keep between calls (C16); the structural checks (C14, C15) gain nothing from them
C16_ONLY = ("subtree-replaced-after-analysis", "replaced-after-analysis")
EDIT_BASES = [b for b in BASES if b not in C16_ONLY]


# ---------------------------------------------------------------------------------------------------
def well_formed(sysobj):
    """The invariant of C14 evaluated on the graph + registries.  -> list of violated clause names."""
    import sysloss.components as C

    g = sysobj._g
    bad = []
    idx_names = {i: g[i]._params["name"] for i in g.node_indices()}
    names = list(idx_names.values())
    if len(names) != len(set(names)):
        bad.append("component-names-unique")
    rails = [r for r in g.attrs["rails"].values() if r != ""]
    if len(rails) != len(set(rails)):
        bad.append("rail-names-unique")
    if set(rails) & set(names):
        bad.append("rails-and-names-disjoint")
    for reg in ("nodes", "phase_conf", "groups", "rails"):
        extra = set(g.attrs[reg]) - set(names)
        if reg == "phase_conf":
            extra -= set(rails)  # set_comp_phases may have been addressed by rail name
        if extra or (set(names) - set(g.attrs[reg])):
            bad.append("registry-%s-matches-components" % reg)
    if any(idx_names.get(i) != n for n, i in g.attrs["nodes"].items()):
        bad.append("registry-nodes-index-consistent")
    n_mux = 0
    for i, n in idx_names.items():
        c = g[i]
        t = c._component_type
        indeg, outdeg = g.in_degree(i), g.out_degree(i)
        if (indeg == 0) != (t == C._ComponentTypes.SOURCE):
            bad.append("roots-are-exactly-the-sources")
        if t == C._ComponentTypes.LOAD and outdeg > 0:
            bad.append("loads-have-no-children")
        if indeg > 1 and t != C._ComponentTypes.PMUX:
            bad.append("only-pmux-has-several-parents")
        if t == C._ComponentTypes.PMUX:
            n_mux += 1
        for p in g.predecessor_indices(i):
            if t not in g[p]._child_types:
                bad.append("every-link-acceptable-to-add_comp")
    if n_mux > 1:
        bad.append("at-most-one-pmux")
    return sorted(set(bad))


def reports(sysobj, with_solve=True):
    """Every read-only report of the system as nested dicts (row order independent)."""
    import io
    import json
    import os
    import tempfile
    import warnings
    from . import snap
    import sysloss.system as Sm

    out = {}
    with warnings.catch_warnings():
        warnings.simplefilter("ignore")
        if with_solve:
            out["solve"] = snap.frame_by_name(sysobj.solve())
            out["rail_rep"] = snap.frame_by_name(sysobj.rail_rep()) if any(r for r in sysobj._g.attrs["rails"].values()) else None
        out["params"] = snap.frame_by_name(sysobj.params(limits=True))
        out["limits"] = snap.frame_by_name(sysobj.limits())
        ph = sysobj.phases()
        out["phases"] = snap.frame_by_name(ph) if ph is not None else None
        old = Sm.print
        buf = []
        Sm.print = lambda *a, **k: buf.append(a[0])
        try:
            sysobj.tree()
        finally:
            Sm.print = old
        out["tree"] = _tree(buf[0]) if buf else None
        tmp = tempfile.NamedTemporaryFile(suffix=".json", delete=False)
        tmp.close()
        try:
            sysobj.save(tmp.name)
            out["save"] = _norm_save(json.load(open(tmp.name)))
        finally:
            os.unlink(tmp.name)
    return out


def _tree(t):
    from rich.tree import Tree

    kids = list(t.children)
    while isinstance(t.label, Tree):  # System._make_rtree nests Tree objects as labels
        t = t.label
        kids = kids + list(t.children)
    return {"label": str(t.label), "children": sorted((_tree(c) for c in kids), key=lambda d: d["label"])}


def _norm_save(doc):
    """Order-insensitive view of the save() document."""
    out = {"system": dict(doc["system"])}
    # set_comp_phases may have been addressed by rail name: the configuration is then stored under that alias
    rails = {r: n for n, r in doc["system"].get("rails", {}).items() if r}
    pc = {}
    for k, v in doc["system"].get("phase_conf", {}).items():
        k2 = rails.get(k, k) if k not in doc["system"].get("rails", {}) else k
        if k2 in pc and not v:
            continue
        pc[k2] = v if v else None  # {} and [] both mean "no phase configuration"
    out["system"]["phase_conf"] = pc
    for k, v in doc.items():
        if k == "system":
            continue
        e = dict(v)
        ch = {}
        for p, lst in (e.get("childs") or {}).items():
            ch[p] = {c["params"]["name"]: c for c in lst}
        e["childs"] = ch
        out[k] = e
    return out
