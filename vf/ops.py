"""Dual-mode oracle algebra.

Oracles (the `spec`) are written once with these operators.  On proxies they build z3 terms (no
forking); on plain floats they evaluate concretely, so the *same* harness replays a solver model
against the unmodified code.

``Cond`` carries the exact statement ``t`` and a *robust negation* ``nr`` ("false by a clear margin"),
which is only used to steer the search for a counterexample that survives binary64 replay.
"""
import z3

from . import symx
from .symx import SymReal, SymBool, lift, zabs, zsign

MARGIN = 2e-4  # robust-negation margin (relative to 1+|a|+|b|)
CTOL_R = 1e-7  # concrete-mode equality tolerance
CTOL_A = 1e-9


def _sy(*xs):
    return any(isinstance(x, SymReal) for x in xs)


def _zb(x):
    return x if isinstance(x, z3.ExprRef) else z3.BoolVal(bool(x))


def _pyb(x):
    return isinstance(x, bool)


class Cond:
    __slots__ = ("t", "nr")

    def __init__(self, t, nr=None):
        if isinstance(t, SymBool):
            t = t.t
        self.t = t
        self.nr = nr if nr is not None else _not(t)

    def concrete(self):
        return _pyb(self.t)

    def __bool__(self):
        if _pyb(self.t):
            return self.t
        return bool(SymBool(self.t))

    def __repr__(self):
        return "<Cond %s>" % (self.t if _pyb(self.t) else z3.simplify(self.t).sexpr()[:100])


def _not(t):
    return (not t) if _pyb(t) else z3.Not(t)


def _and(*ts):
    if all(_pyb(t) for t in ts):
        return all(ts)
    ts = [t for t in ts if not (_pyb(t) and t)]
    if any(_pyb(t) and not t for t in ts):
        return False
    return z3.And(*[_zb(t) for t in ts]) if len(ts) > 1 else ts[0]


def _or(*ts):
    if all(_pyb(t) for t in ts):
        return any(ts)
    ts = [t for t in ts if not (_pyb(t) and not t)]
    if any(_pyb(t) and t for t in ts):
        return True
    return z3.Or(*[_zb(t) for t in ts]) if len(ts) > 1 else ts[0]


def cond(x):
    if isinstance(x, Cond):
        return x
    if isinstance(x, SymBool):
        return Cond(x.t)
    if isinstance(x, z3.BoolRef):
        return Cond(x)
    return Cond(bool(x))


TRUE = Cond(True)
FALSE = Cond(False)


# -- arithmetic helpers ------------------------------------------------------------------------------
def Abs(x):
    return abs(x)


def Sign(x):
    if isinstance(x, SymReal):
        return SymReal(zsign(x.t))
    return float(x > 0) - float(x < 0)


def Ite(c, a, b):
    c = cond(c)
    if _pyb(c.t):
        return a if c.t else b
    if not _sy(a, b) and a == b:
        return a
    return SymReal(z3.If(c.t, lift(a), lift(b)))


def Min(a, b):
    if _sy(a, b):
        return SymReal(z3.If(lift(a) <= lift(b), lift(a), lift(b)))
    return min(a, b)


def Max(a, b):
    if _sy(a, b):
        return SymReal(z3.If(lift(a) >= lift(b), lift(a), lift(b)))
    return max(a, b)


def Sum(xs):
    s = 0.0
    for x in xs:
        s = s + x
    return s


def Div(a, b):
    """Oracle-side division: builds the term without the proxy's zero-guard fork."""
    if _sy(a, b):
        return SymReal(symx.mk_div(lift(a), lift(b)))
    try:
        return float(a) / float(b)
    except ZeroDivisionError:
        return float("nan")


MARGINS = (MARGIN, 4e-6)  # "clearly false", then "false by more than the concrete comparison tolerance" (deviations of the order of numpy's
                          # default allclose tolerances, 1e-5 relative, sit between the two).  core.check derives the second robust negation
                          # from the first by substituting the numeral - only when a query came back sat.  (A symbolic margin placeholder in
                          # every Cond was tried first: the extra nonlinear terms, although never asserted, changed z3's term numbering and
                          # made one exact-NRA instance 100x slower.)


def _scale(a, b):
    return MARGIN * (1.0 + abs(a) + abs(b))


# -- comparisons -------------------------------------------------------------------------------------
def Eq(a, b):
    if _sy(a, b):
        a, b = SymReal(lift(a)), SymReal(lift(b))
        d = abs(a - b)
        return Cond((a == b).t, (d >= _scale(a, b)).t)
    a, b = float(a), float(b)
    d = abs(a - b)
    return Cond(bool(d <= CTOL_A + CTOL_R * max(abs(a), abs(b))), bool(d >= 0.5 * _scale(a, b)))


def Ne(a, b):
    e = Eq(a, b)
    return Cond(_not(e.t), e.t)


def Le(a, b):
    if _sy(a, b):
        a, b = SymReal(lift(a)), SymReal(lift(b))
        return Cond((a <= b).t, (a >= b + _scale(a, b)).t)
    a, b = float(a), float(b)
    return Cond(bool(a <= b + CTOL_A + CTOL_R * max(abs(a), abs(b))), bool(a >= b + 0.5 * _scale(a, b)))


def Lt(a, b):
    if _sy(a, b):
        a, b = SymReal(lift(a)), SymReal(lift(b))
        return Cond((a < b).t, (a >= b + _scale(a, b)).t)
    a, b = float(a), float(b)
    return Cond(bool(a < b), bool(a >= b + 0.5 * _scale(a, b)))


def Ge(a, b):
    return Le(b, a)


def Gt(a, b):
    return Lt(b, a)


def IsZero(a):
    """Exact zero test (guards in the code are exact)."""
    if isinstance(a, SymReal):
        return Cond((a == 0).t, (abs(a) >= MARGIN).t)
    return Cond(bool(a == 0.0), bool(abs(a) >= 0.5 * MARGIN))


# -- connectives -------------------------------------------------------------------------------------
def And(*cs):
    cs = [cond(c) for c in cs]
    if not cs:
        return TRUE
    return Cond(_and(*[c.t for c in cs]), _or(*[c.nr for c in cs]))


def Or(*cs):
    cs = [cond(c) for c in cs]
    if not cs:
        return FALSE
    return Cond(_or(*[c.t for c in cs]), _and(*[c.nr for c in cs]))


def Not(c):
    c = cond(c)
    return Cond(_not(c.t), c.t)


def Implies(h, c):
    h, c = cond(h), cond(c)
    return Cond(_or(_not(h.t), c.t), _and(h.t, c.nr))


def Iff(a, b):
    a, b = cond(a), cond(b)
    return And(Implies(a, b), Implies(b, a))
