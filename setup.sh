#!/bin/sh
# Offline set-up: overlay venv on top of /venv (which holds sysloss as an editable install of /repo)
# plus z3-solver / cvc5 / crosshair-tool / jsonschema from the local wheelhouse.
set -e
cd "$(dirname "$0")"
V=/verif/.venv
if [ ! -x "$V/bin/python" ] || ! "$V/bin/python" -c "import z3, sysloss, jsonschema" 2>/dev/null; then
  rm -rf "$V"
  /venv/bin/python -m venv "$V"
  SP=$("$V/bin/python" -c "import sysconfig; print(sysconfig.get_paths()['purelib'])")
  printf "import site; site.addsitedir('/venv/lib/python3.12/site-packages')\n" > "$SP/_verif_overlay.pth"
  PIP_NO_INDEX=1 "$V/bin/python" -m pip install -q --no-index --find-links /opt/veriftools/wheels \
      z3-solver cvc5 jsonschema crosshair-tool
fi
"$V/bin/python" -c "import z3, cvc5, jsonschema, sysloss, crosshair; print('verif venv ok: z3', z3.get_version_string(), 'sysloss', sysloss.__file__)"
