#!/usr/bin/env python3
"""Writes /verif/seeded/<id>/meta.json from the table below + the logged results (seeded/RESULTS.txt)."""
import json, os, re

DESC = {
 "C01-agent1": ("C01", "LinReg._solv_inp_curr looks the ground-current table up with the raw (io, vi) instead of (|io|, |vi|)",
                "a LinReg with a 2-D ig table fed from a NEGATIVE rail (the 2-D interpolator does not take abs of the query itself)"),
 "C02-agent1": ("C02", "Converter._solv_pwr_loss looks the efficiency table up with raw (io, vi) instead of magnitudes",
                "a loaded Converter with a 2-D efficiency table on a negative supply whose |vi| is above the smallest table row"),
 "C03-agent1": ("C03", "_solve compares successive current iterates with rtol=vtol instead of itol",
                "vtol much looser than itol together with a system that needs several sweeps (constant-power load behind series resistance)"),
 "C04-agent1": ("C04", "_set_phase_lkup iterates the node table and drops phase configurations stored under a rail name",
                "phases of a converter/source assigned through set_comp_phases(<rail name>, ...) rather than the component name"),
 "C05-agent1": ("C05", "_child_curr reads the per-input off flags from state[c] (the child's own one-element state) instead of the parents' states",
                "a mux whose FIRST input is dead while another, non-selected input is live (>= 3 inputs), or a dead first input that is not a source"),
 "C06-agent1": ("C06", "ILoad._solv_inp_curr: `phase_conf.get(phase) or iis` treats a configured 0 A as 'not configured'",
                "an ILoad with iis > 0 whose phase table holds exactly 0 for the phase being solved"),
 "C07-agent1": ("C07", "Subsystem rows compute the 24h energy with the solve() argument `phase` instead of the loop variable `ph`",
                ">= 2 sources AND load phases AND solve(energy=True) over all phases"),
 "C08-agent1": ("C08", "rail_rep takes the rail voltage from the owner's first 'Rail out' row without the phase filter",
                "phases defined, rail_rep() over all phases, and a rail whose voltage differs between phases"),
 "C09-agent1": ("C09", "_solv_get_warns gates the 'phase not listed' silence on an inclusion list that omits LOAD",
                "a load with a phase table that does not list the phase AND a limit an idle load violates (vi out of range / non-zero min)"),
 "C10-agent1": ("C10", "VLoss looks its vdrop table up with (|io|, vi) - abs() on vi dropped in both laws",
                "a VLoss with a 2-D table on a negative rail"),
 "C11-agent1": ("C11", "PLoad.__init__ stores pwrs without abs()",
                "a PLoad constructed with negative pwrs, visible in an unlisted phase"),
 "C12-agent1": ("C12", "save(): components below a PMux are written with their PARENT's applicable limits (e/c mix-up in the PMux block)",
                "a system with a PMux and a non-default limit on a component below it"),
 "C13-agent1": ("C13", "generic TOML loader uses isinstance(pval, tuple(typ)) instead of type(pval) in typ: bool passes for int/float keys",
                "a TOML boolean on a numeric key of a kind using the generic loader"),
 "C14-agent1": ("C14", "del_comp(del_childs=False) re-links the children to EVERY parent of the deleted node",
                "deleting a PMux (>= 2 inputs) that has children with del_childs=False: a non-mux child ends up with several parents"),
 "C15-agent1": ("C15", "change_comp: the same-name rail check moved after the registry updates",
                "a rejected same-name change_comp whose rail collides with an existing name/rail or with its own name"),
 "C16-agent1": ("C16", "del_comp(del_childs=False) rebuilds a re-linked child's declared input order from graph predecessors (newest edge first)",
                "deleting a non-first intermediate input of a PMux (or any input of a >= 3-input mux) with del_childs=False"),
 "C17-agent1": ("C17", "PLoad._solv_inp_curr uses phase_conf.setdefault(phase, pwrs): solve() writes into the system's (and the caller's) phase dict",
                "phases, a PLoad with a partial phase table on a LIVE supply, an analysis over the omitted phase, then phases()/save() compared"),
 "C18-agent1": ("C18", "batt_life solves BEFORE writing the present battery state into the Source (current lags one step)",
                "a battery whose voltage/impedance changes between steps or whose probed state differs from the declared Source"),
 "C01-agent2": ("C01", "_child_curr: `break` instead of skipping a multi-input child that is fed from another input",
                "a lower-priority (non-selected) PMux input that has other children added BEFORE the mux (successor order is reverse insertion order)"),
 "C02-agent2": ("C02", "LinReg._solv_pwr_loss looks the ig table up at the OUTPUT voltage |v| instead of |vi|",
                "an active LinReg with a 2-D ig table whose values differ between input and output voltage"),
 "C03-agent2": ("C03", "_solve compares only the first len(topo_nodes) slots of the iterate vectors",
                "a system with a hole in the node numbering (a deletion that is not the last added node): the highest-indexed components drop out of the convergence test"),
 "C05-agent2": ("C05", "_find_domain walks the ancestors of the FIRST declared input instead of the connected one",
                "a connected input that is not the first, not a bare source, and whose source differs from input 0's source"),
 "C07-agent2": ("C07", "_find_domain uses the direct parents instead of all ancestors of the selected input",
                "the conducting mux input two or more levels below its source, and a different source emitted just before the mux"),
 "C09-agent2": ("C09", "vd computed as |vi - vo| instead of |vi| - |vo|",
                "a component whose limits include vd with input and output of opposite sign (rectifier on a negative rail, LinReg with opposite-sign vo) and a vd limit in between"),
 "C12-agent2": ("C12", "from_file no longer passes iq to Rectifier",
                "a MOSFET-mode Rectifier with iq != 0 (solve differs only when its output current is exactly 0)"),
 "C16-agent2": ("C16", "change_comp keeps the old phase configuration when the name is unchanged (setdefault instead of assignment)",
                "set_sys_phases + set_comp_phases(X) + change_comp(X -> same name) + a phase-aware report"),
 "C04-agent3": ("C04", "_solve returns after ONE sweep when every source is off ('nothing is powered')",
                "all sources dead in the phase and two voltage-generating stages cascaded below the dead source (off-state travels one level per sweep)"),
 "C06-agent3": ("C06", "set_sys_phases prunes component phase configurations to the newly defined phase names",
                "a component configuration naming a phase that is missing from a later set_sys_phases call (configured first / phases redefined)"),
 "C08-agent3": ("C08", "rail power computed as |V * sum(I)| instead of summing the Power column",
                "a loss-type load (Power 0, Loss V*I) directly on a named rail"),
 "C10-agent3": ("C10", "LinReg no-load branch takes the ground current from _get_inp_current (table corner (io_min, vi_min))",
                "an unloaded LinReg with a 2-D ig table and an input voltage away from the lowest vi row"),
 "C11-agent3": ("C11", "_Interp1d no longer takes abs() of the tabulated values",
                "a VLoss / diode Rectifier with a single-row vdrop table whose entries carry a negative sign"),
 "C13-agent3": ("C13", "LinReg.from_file reads [limits] from inside the [linreg] table",
                "a LinReg TOML file with a non-default [limits] section"),
 "C14-agent3": ("C14", "add_comp's single-PMux rule uses _get_pmux() > 0 instead of != -1",
                "the existing PMux sits at node index 0 (first source deleted, index re-used) and a second PMux is added"),
 "C15-agent3": ("C15", "add_comp's alias-duplicate-parent check folded into the edge loop (after the component was registered)",
                "a rejected add_comp of a PMux naming one parent by component name and by rail name"),
 "C17-agent3": ("C17", "_get_warns normalises the limit pair in place (abs) - the list belongs to the component and to the caller",
                "a non-tp limit with a negative bound on a component that is checked, then limits()/save()/the caller's dict inspected after a solve"),
 "C18-agent3": ("C18", "time step without phases uses 3600/mult (the progress-bar multiplier) instead of 3.6",
                "no phases and a probed capacity >= 100 Ah"),
 "C20-agent4": ("C20", "temperature factor moved into a helper; plane_res forgets to forward tcr",
                "plane_res with a non-default tcr at a temperature other than 20 degrees"),
}

res = {}
for line in open("/verif/seeded/RESULTS.txt"):
    sid = line.split("|")[0].strip()
    res.setdefault(sid, []).append(line.strip())
for sid, (prop, what, needs) in DESC.items():
    d = "/verif/seeded/%s" % sid
    if not os.path.isdir(d):
        continue
    runs = res.get(sid, [])
    meta = {"seed": sid, "breaks_property": prop, "change": what, "needs_to_manifest": needs,
            "author": "independent sub-agent given only the property text and a scratch worktree",
            "confirmed_by_me": "tools/seedcheck.sh: the 91-test suite passes with the change; demo.py fails with it and passes without it",
            "runs": runs,
            "files": sorted(f for f in os.listdir(d) if not f.startswith("."))}
    json.dump(meta, open(os.path.join(d, "meta.json"), "w"), indent=1)
print("meta written for", [s for s in DESC if os.path.isdir("/verif/seeded/%s" % s)])
