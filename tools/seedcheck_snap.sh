#!/bin/bash
# usage: [VDIR=/tmp/vsnap] [NOTE="..."] tools/seedcheck_snap.sh <seed-id> <worktree> <property> [more...]
# Like seedcheck_wt.sh (checks import sysloss from the agent's worktree via PYTHONPATH, /repo untouched) but the checks are run
# from a SNAPSHOT of the committed /verif ($VDIR, a git worktree of /verif's HEAD), so that "first run" means the committed checks
# even while /verif is being edited.
set -u
SID=$1; WT=$2; shift 2; PROPS="$@"
D=/verif/seeded/$SID; mkdir -p $D
cd $WT || exit 3
git diff -- src > $D/patch.diff
cp demo.py $D/demo.py 2>/dev/null
PYTHONPATH=$WT/src timeout 900 /venv/bin/python -m pytest -q -p no:cacheprovider --timeout=900 > $D/.tests.txt 2>&1; T=$(tail -1 $D/.tests.txt)
PYTHONPATH=$WT/src timeout 300 /venv/bin/python demo.py > $D/.demo_with.txt 2>&1; DW=$?
git apply -R $D/patch.diff
PYTHONPATH=$WT/src timeout 300 /venv/bin/python demo.py > $D/.demo_without.txt 2>&1; DO=$?
git apply $D/patch.diff
echo "tests: $T | demo with change exit=$DW | demo without change exit=$DO"
RES=""
for P in $PROPS; do
  cd ${VDIR:-/tmp/vsnap} && PYTHONPATH=$WT/src VERIF_EVIDENCE_DIR=/tmp/seed_evidence timeout 3000 ./check $P > $D/.check_$P.txt 2>&1; RC=$?
  V=$(grep -c '^VIOLATION' $D/.check_$P.txt)
  echo "check $P exit=$RC violations=$V"; grep '^VIOLATION' -A1 $D/.check_$P.txt | head -6 | cut -c1-300
  RES="$RES $P:exit=$RC:violations=$V"
done
echo "$SID | ${NOTE:-}tests: $T | demo_with=$DW demo_without=$DO |$RES" >> /verif/seeded/RESULTS.txt
