#!/bin/bash
# usage: tools/seedcheck.sh <seed-id> <worktree> <property> [more properties...]
# Confirms a seeded change (tests pass with it, demo fails with it and passes without), stores it under /verif/seeded/<seed-id>/,
# then applies it to /repo, runs the named checks, and restores /repo.
set -u
SID=$1; WT=$2; shift 2; PROPS="$@"
D=/verif/seeded/$SID; mkdir -p $D
cd $WT || exit 3
git diff -- src > $D/patch.diff
cp demo.py $D/demo.py 2>/dev/null
echo "== confirm in worktree $WT"
PYTHONPATH=$WT/src timeout 900 /venv/bin/python -m pytest -q -p no:cacheprovider --timeout=900 > $D/.tests.txt 2>&1; T=$(tail -1 $D/.tests.txt)
PYTHONPATH=$WT/src timeout 300 /venv/bin/python demo.py > $D/.demo_with.txt 2>&1; DW=$?
git apply -R $D/patch.diff   # (not git stash: the stash list is shared between worktrees)
PYTHONPATH=$WT/src timeout 300 /venv/bin/python demo.py > $D/.demo_without.txt 2>&1; DO=$?
git apply $D/patch.diff
echo "tests: $T | demo with change exit=$DW | demo without change exit=$DO"
echo "== run checks against /repo with the change applied"
cd /repo && git apply $D/patch.diff || { echo "patch does not apply"; exit 3; }
RES=""
for P in $PROPS; do
  cd /verif && timeout 3000 ./check $P > $D/.check_$P.txt 2>&1; RC=$?
  V=$(grep -c '^VIOLATION' $D/.check_$P.txt)
  echo "check $P exit=$RC violations=$V"; grep '^VIOLATION' -A1 $D/.check_$P.txt | head -6 | cut -c1-300
  RES="$RES $P:exit=$RC:violations=$V"
done
cd /repo && git checkout -- . && git status --short | head -3
echo "$SID | tests: $T | demo_with=$DW demo_without=$DO |$RES" >> /verif/seeded/RESULTS.txt
