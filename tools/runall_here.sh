#!/bin/bash
# usage: tools/runall_here.sh [quick|thorough]  - like runall.sh but runs the checks of the directory it is started from (a `vp run`
# snapshot of the committed /verif), so that edits made to /verif meanwhile do not reach a sweep that is under way.  Evidence goes to
# $VERIF_EVIDENCE_DIR (default /tmp/sweep_evidence): evidence committed under /verif/evidence always comes from /verif itself.
T=${1:-quick}
export VERIF_EVIDENCE_DIR=${VERIF_EVIDENCE_DIR:-/tmp/sweep_evidence}
for p in ${PROPS:-C01 C02 C03 C04 C05 C06 C07 C08 C09 C10 C11 C12 C13 C14 C15 C16 C17 C18 C20}; do
  S=$(date +%s)
  timeout 9000 ./check $p --tier $T > sweep_$p.txt 2>&1; RC=$?
  E=$(( $(date +%s) - S ))
  echo "$p exit=$RC ${E}s  viol=$(grep -c '^VIOLATION' sweep_$p.txt) inconcl=$(grep -c '^INCONCLUSIVE' sweep_$p.txt) known=$(grep -c '^KNOWN-FINDING' sweep_$p.txt) | $(tail -1 sweep_$p.txt | cut -c1-130)"
done
