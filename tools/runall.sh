#!/bin/bash
# usage: [PROPS="C02 C08"] tools/runall.sh [quick|thorough]   - every (or the named) check once, one summary line each
T=${1:-quick}
cd /verif
for p in ${PROPS:-C01 C02 C03 C04 C05 C06 C07 C08 C09 C10 C11 C12 C13 C14 C15 C16 C17 C18 C20}; do
  S=$(date +%s)
  timeout 7200 ./check $p --tier $T > /tmp/runall_$p.txt 2>&1; RC=$?
  E=$(( $(date +%s) - S ))
  echo "$p exit=$RC ${E}s  viol=$(grep -c '^VIOLATION' /tmp/runall_$p.txt) inconcl=$(grep -c '^INCONCLUSIVE' /tmp/runall_$p.txt) known=$(grep -c '^KNOWN-FINDING' /tmp/runall_$p.txt) | $(tail -1 /tmp/runall_$p.txt | cut -c1-130)"
done
