#!/bin/bash
# usage: tools/seedbatch.sh <round-suffix> [ids...]     e.g. tools/seedbatch.sh r9 C01 C02
# Evaluates the seeds <ID>-<suffix> whose scratch worktrees are /tmp/wt/<ID>-<suffix> one after the other with tools/seedcheck_wt.sh
# (the checks import sysloss from the worktree; /repo is left alone).  Extra properties per seed: EXTRA_<ID>="C10 C17".
SUF=$1; shift
IDS=${@:-C01 C02 C03 C04 C05 C06 C07 C08 C09 C10 C11 C12 C13 C14 C15 C16 C17 C18 C20}
for P in $IDS; do
  S=$P-$SUF
  [ -d /tmp/wt/$S ] || { echo "$S: no worktree"; continue; }
  X=EXTRA_$P
  echo "=== $S"
  /verif/tools/seedcheck_wt.sh $S /tmp/wt/$S $P ${!X:-} 2>&1 | cut -c1-400
done
