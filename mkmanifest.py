#!/usr/bin/env python3
"""Regenerates MANIFEST.json from the table below (kept in one place so it stays valid)."""
import json

REPO_FIXES = ["7e35490", "ecea711", "fc01ecc", "cd27f47", "463d510", "2d5f2e1", "19f78b7", "505b133", "a8ceba4", "52f9b16", "9d2a8be", "5232db2", "9ed931a", "72b95c5", "7d2242b", "bc9cd84", "5cca2dd", "b884f23", "14ac02c", "5e33b1d"]
TECH = "bounded symbolic execution of the real Python code on z3 real proxies (own engine vf.symx) + SMT (z3; UF abstraction with exact NRA refinement); counterexamples replayed concretely"
CLAIMED = {
    "C01": ("unit level: every _solv_outp_volt/_solv_inp_curr of the 11 kinds (const / 1-D / 2-D tables, phase modes, off flags, PMux k<=3) "
            "proved equal to an independent reference model for ALL real parameter values; system level: real solve() from an arbitrary converged iterate "
            "(one inductive step) and the real loop on feed-forward shapes: per-row law and neighbour equations on a shape catalogue (thorough: every tree "
            "<= 4 nodes); translator validation of every shim against the float path.",
            "Floats modelled as reals; numpy/scipy contract shims (DESIGN 1.4); io>=0; bounded table sizes and tree shapes.", "4/C01"),
    "C02": ("unit level: every _solv_pwr_loss with (vo, ii) produced by the component's own laws: P-L = |Vout|*Iout, 0<=L<=P, efficiency, "
            "temperature for ALL real values (exact NRA), also when the same object was evaluated before at another operating point / ambient; system level: the same per row on the real solve() table plus total rows and the "
            "system power balance by a solver-checked telescoping argument (every hypothesis is its own obligation).",
            "Floats as reals; contract shims; polarity-keeping states only (overload is C03); shape catalogue bound.", "4/C02"),
    "C04": ("system level: source voltages symbolic including 0 V, phase-inactive elements by configuration; for every row "
            "'supply dead by configuration => all numeric cells 0' and the sleep-current / sleep-power law of the inactive element, at depth <= 4.",
            "Floats as reals; contract shims; shape catalogue and 2 phases bound.", "4/C04"),
    "C05": ("unit level: real PMux priority selection / per-input rs for k<=3(4) inputs, all off vectors (exact); system level: which input is "
            "selected is a solver decision; Parent/Rail-in, Vin, Domain, current attribution and all-dead case per mux shape.",
            "Floats as reals; contract shims; 1..4 inputs; shape catalogue bound.", "4/C05"),
    "C07": ("real solve() aggregation (Domain attribution, Subsystem / total / average rows, energy) on proxies compared cell by cell with a spec "
            "interpreter over the harness's own tree description, for multi-source and mux shapes in several insertion orders, with phases.",
            "Floats as reals; contract shims; efficiency cells only for non-overloaded states; shape catalogue bound.", "4/C07"),
    "C06": ("real set_sys_phases/set_comp_phases/solve(phase=) with concrete phase configurations and symbolic durations, parameters and per-phase load "
            "values: per phase the rows satisfy the law oracle (phase value / sleep value / activity lists) and the dead-rail oracle; solve(phase=p) equals "
            "the rows of p in the all-phase table cell by cell; unknown phase rejected.",
            "Floats as reals; contract shims; 2 (3) phases; shape catalogue bound; all-phase runs on <= 4-node shapes.", "4/C06"),
    "C08": ("real rail_rep() vs real solve() on one arbitrary converged iterate: per phase and rail voltage = owner's Vout, current/power/loss = sums over "
            "the spec's members (PMux towards its selected input), warning cell = union of member warnings, rails with consumers listed, no rails => solve().",
            "Floats as reals; contract shims; warning texts injected as concrete strings; shape catalogue bound.", "4/C08"),
    "C09": ("real _solv_get_warns/_get_warns/_get_limits on proxies: per key 'flagged <=> documented-applicable and outside [min,max]' (magnitude, tp signed) "
            "with symbolic limits and quantities, defaults, phase-silence; system level per-row cells and Subsystem/total roll-up with the real warning code.",
            "Floats as reals; supplied keys 1 (quick) / 2 (thorough) at a time; other quantities assumed inside default limits.", "4/C09"),
    "C10": ("real table validation, six flattening loops and _Interp1d/_Interp2d (manual clamping cascade) on proxies: grid exactness, linearity along "
            "grid lines, cell envelope, clamping to the nearest edge, never NaN, flat table == constant in every law; repeated look-ups on one table / twin tables / after plot_interp.",
            "numpy.interp / scipy LinearNDInterpolator are contract models, differentially validated against the real libraries on every run; "
            "table sizes bounded; vi rows increasing.", "4/C10"),
    "C11": ("all 11 constructors on proxies with arguments of any sign: ValueError <=> documented validity predicate fails; stored / evaluated "
            "parameters are magnitudes; passive elements never amplify for any accepted arguments; finite concrete panel for malformed arguments.",
            "Floats as reals; table sizes bounded.", "4/C11"),
    "C03": ("(a) the REAL _solve loop for maxiter 0..2 from an arbitrary start iterate with numpy.allclose as its documented predicate and symbolic vtol/itol: "
            "returned => the tested pair passed with the requested tolerances, table = tested iterate, raising => maxiter tests failed, <= maxiter+1 sweeps; "
            "(b) no law divides by zero; (c) exact fixed points without polarity assumption: no returned inverted/amplified state; (d) feed-forward trees converge "
            "within 2*depth+2 sweeps.", "Floats as reals; small shapes; liveness with series-resistance feedback is NOT decided (stated in DESIGN).", "4/C03"),
    "C12": ("real save()/from_file() on proxies through an in-memory JSON pass-through: structure, every parameter / applicable limit / table entry solver-equal, "
            "solve/rail_rep/params/phases cell-wise equal; version gate on concrete files.",
            "Floats as reals; json round-trip contract; shape catalogue bound.", "4/C12"),
    "C13": ("real _Component.from_file / LinReg.from_file on proxies through an in-memory TOML dict: loaded == constructed for every enumerated subset of optional "
            "keys, const/1-D/2-D forms, symbolic limits; KeyError / ValueError / integer panels.",
            "Floats as reals; toml contract; optional-key subsets none/all/single (quick), all (thorough).", "4/C13"),
    "C14": ("real add_source/add_comp/change_comp/del_comp on 19 concrete base histories followed by 1 (quick) / 2 (thorough) SYMBOLIC calls (operation, kind, "
            "del_childs and every name-valued argument are solver-chosen indices into existing names, rails and fresh strings); the well-formedness invariant is "
            "evaluated on the real graph/registries after every call, accepted or rejected.",
            "Solver-driven exhaustive walk over a bounded argument space (not an inductive proof - see DESIGN 4/C14); numeric parameters concrete.", "4/C14"),
    "C15": ("same machinery over all six editing/configuration calls: on every path where the symbolic call raises, graph + registries + component parameters "
            "(and, in the thorough tier, every report) are compared before/after, and a follow-up call is compared with a twin that never saw the rejected call.",
            "Bounded argument space; quick tier recomputes reports only when the state snapshot differs.", "4/C15"),
    "C16": ("base histories (deletions with/without children, rename, replacement, index reuse, edits above/below a PMux, phases) + 0/1 symbolic accepted call: "
            "every report runs, lists exactly the live components and equals, row by row by name, a from-scratch build of the harness's own model of the final "
            "structure in 3 insertion orders.", "Bounded histories; numeric parameters concrete; make_diag not covered.", "4/C16"),
    "C17": ("real batt_life() with nondeterministic callbacks raising at every call index <= K and injected solver failures: vo/rs restored and snapshot unchanged on "
            "every returning or raising path; interleavings of the real analyses leave the snapshot and later results unchanged.",
            "Floats as reals; inner solves abstracted to exact fixed points; plot_interp/make_diag/make_hdiag not covered.", "4/C17"),
    "C18": ("real batt_life() with a nondeterministic battery model (fresh symbolic state per call): arguments of every deplete call, loop continuation, log rows, "
            "strictly increasing time, rejection of non-Sources, for every path with <= K deplete calls.",
            "Floats as reals; feed-forward probe systems; K bound; positive load currents.", "4/C18"),
    "C20": ("trace_res/plane_res executed on proxies; the closed form and every stated algebraic law (proportionality, inverse, affine, symmetry, "
            "trace==plane) is an exact-NRA query proved unsat for all positive dimensions.",
            "Floats modelled as reals (rounding/overflow outside the claim).", "4/C20"),
}
PENDING = "check not built yet in this session (planned, see DESIGN.md section 4)"
NA = {"C19": "observable is Graphviz/pydot/matplotlib output built from C-level float formatting; cannot carry symbolic values, no solver-decidable encoding within reach (DESIGN 4/C19)"}

checks = []
for pid, (text, note, ref) in sorted(CLAIMED.items()):
    checks.append({
        "property_id": pid,
        "quick_cmd": "./check %s --tier quick" % pid,
        "thorough_cmd": "./check %s --tier thorough" % pid,
        "evidence_file": "/verif/evidence/%s.json" % pid,
        "replay_cmd_template": "./check %s --replay {path}" % pid,
        "engine": "symx",
        "level_claimed": {"category": "other", "text": "Bounded solver-based verification of the real code: " + text, "design_ref": ref},
        "level_note": note,
        "technique": TECH,
    })
na = []
for i in range(1, 21):
    pid = "C%02d" % i
    if pid in CLAIMED:
        continue
    na.append({"property_id": pid, "reason": NA.get(pid, PENDING)})
m = {
    "version": 1,
    "setup_cmd": "./setup.sh",
    "hooks": {"guard": "SYSLOSS_VERIF", "enable": "no source hooks are needed: the engine rebinds module globals at run time (DESIGN 1.4)",
              "baseline_off_cmd": "cd /repo && /venv/bin/python -m pytest -ra -q -p no:cacheprovider --timeout=900 --continue-on-collection-errors",
              "source_commits": [], "add_only": True},
    "engines": [{"name": "symx", "path": "/verif/vf", "serves_properties": sorted(CLAIMED),
                 "kind_free_text": "proxy-based symbolic execution of the real sysloss functions over z3 reals, path exploration by re-execution, UF abstraction + exact refinement, concrete replay"}],
    "checks": checks,
    "not_applicable": na,
    "notes": "Exit 0 = held on everything explored; 1 = VIOLATION (reproduced concretely); 2 = inconclusive/harness problem (never a VIOLATION line). "
             "Repairs of genuine defects in /repo: " + ", ".join(REPO_FIXES) + " (see known_findings.json 'fixed').",
}
json.dump(m, open("MANIFEST.json", "w"), indent=1)
print("MANIFEST.json:", len(checks), "checks,", len(na), "not_applicable")
